"""C03 — stream pipelines equal their sequential meaning: differential correspondence of the real
Stream with coq/Model/Ops.v (Driver/DriverOps.v), an independent reference implementation as oracle,
and pull-count oracles (building consumes nothing; bounded look-ahead of one-to-one chains)."""
from __future__ import annotations

import itertools
import json
import random
import sys
import time

PROP = 'C03'

# ------------------------------------------------------------------------------------------------
# element universe and named function library (identical in coq/Driver/DriverOps.v)
# ------------------------------------------------------------------------------------------------


class UErr(Exception):
    def __init__(self, code):
        super().__init__(code)
        self.code = code


class E7(Exception):
    code = 7


class E8(Exception):
    code = 8


class E9(E8):        # a subclass: isinstance-based filtering must treat it as an E8 too
    code = 9


class Stop(StopIteration):
    """a StopIteration that a user function raises (e.g. a bare next() on an exhausted helper iterator) or that travels
    as a data element: inside the generator-based operators it must surface as an error (PEP 479), never end the stream"""
    def __init__(self, code=19):
        super().__init__(code)
        self.code = code


EXC = {7: E7, 8: E8, 9: E9, 19: Stop}
# which codes are instances of which class code (for the model's drop/keep sets)
ISA = {7: [7], 8: [8, 9], 9: [9]}


def dec(j):
    t = j[0]
    if t == 'I':
        return j[1]
    if t == 'N':
        return None
    if t == 'X':
        return EXC[j[1]](j[1]) if j[1] in EXC else UErr(j[1])
    if t == 'L':
        return [dec(x) for x in j[1]]
    return (dec(j[1]), dec(j[2]))


def enc(x):
    if x is None:
        return ['N']
    if isinstance(x, bool):
        return ['I', 777777]
    if isinstance(x, int):
        return ['I', x]
    if isinstance(x, BaseException):
        return ['X', getattr(x, 'code', 999)]
    if isinstance(x, list):
        return ['L', [enc(y) for y in x]]
    if isinstance(x, tuple) and len(x) == 2:
        return ['P', enc(x[0]), enc(x[1])]
    return ['I', 888888]


def is_int(x):
    return isinstance(x, int) and not isinstance(x, bool)


def map_fn(i):
    def f0(x): return x
    def f1(x):
        if is_int(x):
            return x + 1
        raise UErr(11)
    def f2(x): return None
    def f3(x): return [x, x]
    def f4(x):
        if is_int(x) and x == 3:
            raise UErr(12)
        return x
    def f5(x):
        if is_int(x) and x % 2 == 1:
            return E7(7)
        return x
    def f6(x): return (x, x)
    def f7(x):
        if is_int(x) and x == 5:
            raise Stop(17)
        return x
    return [f0, f1, f2, f3, f4, f5, f6, f7][min(i, 7)]


def pred_fn(i):
    def p0(x): return True
    def p1(x):
        if is_int(x):
            return x % 2 == 0
        if x is None:
            return False
        raise UErr(13)
    def p2(x): return x is not None
    def p3(x):
        if is_int(x) and x == 2:
            raise UErr(14)
        return True
    def p4(x): return False
    def p5(x):
        if is_int(x) and x == 6:
            raise Stop(18)
        return True
    return [p0, p1, p2, p3, p4, p5][min(i, 5)]


def parity(x):
    return x % 2 if is_int(x) else None


def key_fn(i):
    def k0(x): return parity(x)
    def k1(x): return 0
    def k2(x): return None if isinstance(x, BaseException) else x
    def k3(x):
        if is_int(x) and x == 4:
            raise UErr(15)
        return parity(x)
    return [k0, k1, k2, k3][min(i, 3)]


def acc_fn(i):
    def a0(a, b):
        if is_int(a) and is_int(b):
            return a + b
        raise UErr(16)
    def a1(a, b): return b
    def a2(a, b):
        if is_int(b) and b == 7:
            raise Stop(20)
        return b
    return [a0, a1, a2][min(i, 2)]


# ------------------------------------------------------------------------------------------------
# case generation
# ------------------------------------------------------------------------------------------------

def gen_elem(rng, depth=0):
    r = rng.random()
    if r < 0.62:
        return ['I', rng.randrange(0, 10)]
    if r < 0.72:
        return ['N']
    if r < 0.82:
        return ['X', rng.choice([7, 8, 9, 7, 8, 9, 19])]
    if r < 0.95 and depth < 2:
        return ['L', [gen_elem(rng, depth + 1) for _ in range(rng.choice([0, 1, 2, 3]))]]
    return ['I', rng.randrange(0, 10)]


def gen_op(rng, n):
    bnd = [1, 1, 2, 3, max(1, n - 1), max(1, n), n + 1, n + 3]
    k = rng.choice(['map', 'map', 'filter', 'filter_exc', 'peek', 'head', 'tail', 'batch', 'unbatch', 'groupby',
                    'accum', 'buffer', 'parmap', 'shuffle'])
    if k == 'map':
        return ['map', rng.randrange(0, 8)]
    if k == 'filter':
        return ['filter', rng.randrange(0, 6)]
    if k == 'filter_exc':
        return ['filter_exc', rng.choice([[], [7], [8], [7, 8], [9], [7, 8, 9]]), rng.choice([[], [], [7], [8], [9]])]
    if k in ('peek', 'unbatch'):
        return [k]
    if k == 'buffer':
        return [k, rng.choice([1, 2, 3, 4, n + 3])]
    if k in ('head', 'tail', 'batch'):
        return [k, rng.choice(bnd)]
    if k == 'groupby':
        return ['groupby', rng.randrange(0, 4)]
    if k == 'accum':
        return ['accum', rng.randrange(0, 3), rng.choice([None, None, ['I', 10], ['N']])]
    if k == 'parmap':
        return ['parmap', rng.choice([0, 1, 1, 2, 3, 4, 5, 6, 7]), rng.random() < 0.4, rng.random() < 0.5, rng.choice([1, 2, 3])]
    return ['shuffle', rng.choice(bnd), [rng.randrange(0, 50) for _ in range(rng.randrange(0, 12))]]


def gen_case(rng):
    mostly_int = rng.random() < 0.45
    n = rng.choice([0, 1, 2, 3, 4, 5, 6, 8, 10, 13])
    xs = [['I', rng.randrange(0, 10)] if mostly_int else gen_elem(rng) for _ in range(n)]
    upe = rng.choice([-1, -1, -1, -1, 21])
    nops = rng.choice([0, 1, 1, 2, 2, 3, 4, 6])
    ops = [gen_op(rng, n) for _ in range(nops)]
    # the scripted draw list is installed per pipeline (one stand-in for the `random` module): at most one shuffle each
    seen = False
    for i, o in enumerate(ops):
        if o[0] == 'shuffle':
            if seen:
                ops[i] = ['peek']
            seen = True
    return {'ops': ops, 'xs': xs, 'upe': upe, 'mode': rng.choice(['iter', 'collect', 'drain'])}


def gen_lookahead_case(rng):
    n = rng.choice([30, 40])
    ops = []
    for _ in range(rng.choice([1, 2, 3])):
        k = rng.choice(['map', 'peek', 'accum', 'buffer', 'parmap'])
        ops.append({'map': ['map', rng.choice([0, 1, 6])], 'peek': ['peek'], 'accum': ['accum', 1, None],
                    'buffer': ['buffer', rng.choice([1, 2, 3, 5])],
                    'parmap': ['parmap', rng.choice([0, 1]), False, False, rng.choice([1, 2, 3])]}[k])
    return {'ops': ops, 'xs': [['I', i % 10] for i in range(n)], 'upe': -1, 'mode': 'take', 'k': rng.choice([1, 2, 5])}


# ------------------------------------------------------------------------------------------------
# impl side
# ------------------------------------------------------------------------------------------------

class Source:
    def __init__(self, xs, upe):
        self.xs, self.upe, self.i, self.pulls = xs, upe, 0, 0

    def __iter__(self):
        return self

    def __next__(self):
        if self.i >= len(self.xs):
            if self.upe != -1:
                self.pulls += 1
                raise UErr(self.upe)
            raise StopIteration
        self.pulls += 1
        x = self.xs[self.i]
        self.i += 1
        return x


def exc_code(e):
    if isinstance(e, TypeError):
        return 90
    if isinstance(e, RuntimeError) and isinstance(e.__cause__, StopIteration):
        # PEP 479: a StopIteration escaping a generator frame becomes RuntimeError; the error stays visible
        return getattr(e.__cause__, 'code', 999)
    return getattr(e, 'code', 999)


def build(case, src, random_ns):
    from mpservice.streamer import Stream
    s = Stream(src)
    for o in case['ops']:
        k = o[0]
        if k == 'map':
            s.map(map_fn(o[1]))
        elif k == 'filter':
            s.filter(pred_fn(o[1]))
        elif k == 'filter_exc':
            d = tuple(EXC[c] for c in o[1]) or None
            kp = tuple(EXC[c] for c in o[2]) or None
            s.filter_exceptions(d, kp)
        elif k == 'peek':
            s.peek(print_func=lambda *a: None, interval=2)
        elif k == 'head':
            s.head(o[1])
        elif k == 'tail':
            s.tail(o[1])
        elif k == 'batch':
            s.batch(o[1])
        elif k == 'unbatch':
            s.unbatch()
        elif k == 'groupby':
            s.groupby(key_fn(o[1])).map(lambda kv: (kv[0], list(kv[1])))
        elif k == 'accum':
            if o[2] is None:
                s.accumulate(acc_fn(o[1]))
            else:
                s.accumulate(acc_fn(o[1]), dec(o[2]))
        elif k == 'buffer':
            s.buffer(o[1])
        elif k == 'parmap':
            s.parmap(map_fn(o[1]), executor='thread', concurrency=o[4], return_x=o[2], return_exceptions=o[3])
        elif k == 'shuffle':
            random_ns.draws = list(o[2])
            s.shuffle(o[1])
    return s


class RandomNS:
    """stands in for the `random` module inside _streamer (shuffle only): scripted draws, reverse as shuffle"""
    draws: list = []

    def randrange(self, n):
        d = self.draws.pop(0) if self.draws else 0
        return d % n

    def shuffle(self, buf):
        buf.reverse()

    def random(self):
        return 0.5


def run_impl_case(case):
    from mpservice.streamer import _streamer
    rns = RandomNS()
    saved = _streamer.random
    _streamer.random = rns
    res = {'out': None, 'ending': None, 'pulls_after_build': None, 'pulls_end': None, 'count': None}
    try:
        src = Source([dec(x) for x in case['xs']], case['upe'])
        s = build(case, src, rns)
        res['pulls_after_build'] = src.pulls
        out = []
        try:
            if case['mode'] == 'iter':
                for x in s:
                    out.append(x)
            elif case['mode'] == 'collect':
                out = s.collect()
            elif case['mode'] == 'drain':
                res['count'] = s.drain()
                out = None
            else:   # take k then look at the pull counter
                it = iter(s)
                for _ in range(case['k']):
                    out.append(next(it))
                time.sleep(0.03)
                res['pulls_at_k'] = src.pulls
                it.close()
            res['ending'] = -1
        except Exception as e:  # noqa
            res['ending'] = exc_code(e)
            res['exc_repr'] = repr(e)[:200]
            if case['mode'] == 'collect':
                out = None      # collect() loses the partial list
        res['out'] = None if out is None else [enc(x) for x in out]
        res['pulls_end'] = src.pulls
    finally:
        _streamer.random = saved
    return res


# independent reference (documented sequential meaning), written against the docs, not the code
def reference(case):
    def source():
        for x in case['xs']:
            yield dec(x)
        if case['upe'] != -1:
            raise UErr(case['upe'])

    def head(up, n):
        c = 0
        for v in up:          # stops right after the n-th element: what follows (even a failure) is never pulled
            yield v
            c += 1
            if c >= n:
                return

    def tail(up, n):
        buf = list(up)
        yield from buf[-n:]

    def batch(up, n):
        b = []
        for x in up:
            b.append(x)
            if len(b) == n:
                yield b
                b = []
        if b:
            yield b

    def unbatch(up):
        for x in up:
            for y in x:
                yield y

    def fexc(up, d, k):
        for x in up:
            if isinstance(x, BaseException):
                if k and isinstance(x, k):
                    yield x
                elif d and isinstance(x, d):
                    continue
                else:
                    raise x
            else:
                yield x

    def accum(up, f, init):
        first = True
        acc = init
        for x in up:
            if first and init is _NOT:
                acc = x
            else:
                acc = f(acc, x)
            first = False
            yield acc

    def groupby(up, key):
        cur = None
        for x in up:
            k = key(x)
            if cur is not None and cur[0] == k:
                cur[1].append(x)
            else:
                if cur is not None:
                    yield (cur[0], cur[1])
                cur = (k, [x])
        if cur is not None:
            yield (cur[0], cur[1])

    def parmap(up, f, rx, re):
        for x in up:
            try:
                y = f(x)
            except Exception as e:  # noqa
                if not re:
                    raise
                y = e
            yield (x, y) if rx else y

    def shuffle(up, n, draws):
        draws = list(draws)
        buf = []
        for x in up:
            if len(buf) < n:
                buf.append(x)
            else:
                i = (draws.pop(0) if draws else 0) % n
                yield buf[i]
                buf[i] = x
        yield from reversed(buf)

    g = source()
    for o in case['ops']:
        k = o[0]
        if k == 'map':
            g = (lambda f, up: (f(x) for x in up))(map_fn(o[1]), g)      # 1-to-1: an escaping StopIteration is an error
        elif k == 'filter':
            g = (lambda p, up: (x for x in up if p(x)))(pred_fn(o[1]), g)
        elif k == 'filter_exc':
            g = fexc(g, tuple(EXC[c] for c in o[1]), tuple(EXC[c] for c in o[2]))
        elif k in ('peek', 'buffer'):
            pass
        elif k == 'head':
            g = head(g, o[1])
        elif k == 'tail':
            g = tail(g, o[1])
        elif k == 'batch':
            g = batch(g, o[1])
        elif k == 'unbatch':
            g = unbatch(g)
        elif k == 'groupby':
            g = groupby(g, key_fn(o[1]))
        elif k == 'accum':
            g = accum(g, acc_fn(o[1]), _NOT if o[2] is None else dec(o[2]))
        elif k == 'parmap':
            g = parmap(g, map_fn(o[1]), o[2], o[3])
        elif k == 'shuffle':
            g = shuffle(g, o[1], o[2])
    out = []
    try:
        for x in g:
            out.append(x)
        return [enc(x) for x in out], -1
    except Exception as e:  # noqa
        return [enc(x) for x in out], exc_code(e)


_NOT = object()


def lookahead_allow(case):
    la = 0
    for o in case['ops']:
        if o[0] == 'buffer':
            la += o[1] + 2
        elif o[0] == 'parmap':
            la += 2 * o[4] + 3
    return la


def oracle(case, obs):
    if obs.get('crash'):
        return 'implementation crashed: ' + obs['crash']
    if obs['pulls_after_build'] != 0:
        return f"building the pipeline pulled {obs['pulls_after_build']} elements from the source"
    if case['mode'] == 'take':
        k = case['k']
        allow = k + lookahead_allow(case)
        if obs.get('pulls_at_k', 0) > allow:
            return (f"after {k} outputs of a one-to-one chain the source had been pulled {obs['pulls_at_k']} times "
                    f"(allowed {allow} = k + sum of the operators' look-ahead)")
        ref, _ = reference(case)
        if obs['out'] != ref[:k]:
            return f"first {k} outputs {obs['out']} differ from the sequential meaning {ref[:k]}"
        return None
    ref, rend = reference(case)
    if obs['ending'] != rend:
        return f"pipeline ended with {obs['ending']} ({obs.get('exc_repr', '')}), sequential meaning ends with {rend} after {ref}"
    if case['mode'] == 'drain':
        if rend == -1 and obs['count'] != len(ref):
            return f"drain() returned {obs['count']}, the sequential meaning has {len(ref)} outputs"
        return None
    if obs['out'] is not None:
        has_shuffle = any(o[0] == 'shuffle' for o in case['ops'])
        if obs['out'] != ref:
            return f"outputs {obs['out']} differ from the sequential meaning {ref}"
        _ = has_shuffle
    return None


def impl_main(argv):
    what, seed, n, outp = argv[0], int(argv[1]), int(argv[2]), argv[3]
    corpus = json.load(open(argv[4])) if len(argv) > 4 else []
    rng = random.Random(seed)
    cases = [c['cfg'] for c in corpus]
    for i in range(n):
        cases.append(gen_lookahead_case(rng) if i % 10 == 9 else gen_case(rng))
    import os
    import signal

    class Hang(BaseException):
        pass

    def on_alarm(*a):
        raise Hang()

    signal.signal(signal.SIGALRM, on_alarm)
    res = []
    for c in cases:
        try:
            signal.alarm(20)
            obs = run_impl_case(c)
            signal.alarm(0)
        except Hang:
            obs = {'out': None, 'ending': None, 'pulls_after_build': 0, 'crash': 'no result within 20 s (hang)'}
        except BaseException as e:  # noqa
            signal.alarm(0)
            obs = {'out': None, 'ending': None, 'pulls_after_build': 0, 'crash': repr(e)[:300]}
        res.append({'cfg': c, 'obs': obs, 'oracle': oracle(c, obs), 'strategy': c['mode'], 'verdict': 'ok'})
    json.dump(res, open(outp, 'w'))
    sys.stdout.flush()
    os._exit(0)


# ------------------------------------------------------------------------------------------------
# orchestrator side
# ------------------------------------------------------------------------------------------------

def coq_elem(j):
    from harness.core import clist, cz
    t = j[0]
    if t == 'I':
        return f'I {cz(j[1])}'
    if t == 'N':
        return 'N'
    if t == 'X':
        return f'X {cz(j[1])}'
    if t == 'L':
        return 'L ' + clist(j[1], lambda x: coq_elem(x))
    return f'P ({coq_elem(j[1])}) ({coq_elem(j[2])})'


def coq_op(o):
    from harness.core import cbool, clist, cnat, copt, cz
    k = o[0]
    if k == 'map':
        return f'CMap {cnat(o[1])}'
    if k == 'filter':
        return f'CFilter {cnat(o[1])}'
    if k == 'filter_exc':
        d = sorted({c for cls in o[1] for c in ISA[cls]})
        kp = sorted({c for cls in o[2] for c in ISA[cls]})
        return f'CFilterExc {clist(d, cz)} {clist(kp, cz)}'
    if k == 'peek':
        return 'CPeek'
    if k == 'unbatch':
        return 'CUnbatch'
    if k in ('head', 'tail', 'batch', 'buffer'):
        return {'head': 'CHead', 'tail': 'CTail', 'batch': 'CBatch', 'buffer': 'CBuffer'}[k] + ' ' + cnat(o[1])
    if k == 'groupby':
        return f'CGroupby {cnat(o[1])}'
    if k == 'accum':
        return f'CAccum {cnat(o[1])} {copt(o[2], lambda e: "(" + coq_elem(e) + ")")}'
    if k == 'parmap':
        return f'CParmap {cnat(o[1])} {cbool(o[2])} {cbool(o[3])}'
    return f'CShuffle {cnat(o[1])} {clist(o[2], cnat)}'


def coq_case(r):
    from harness.core import clist, cz
    c, o = r['cfg'], r['obs']
    return (f"({clist(c['ops'], coq_op)}, {clist(c['xs'], coq_elem)}, {cz(c['upe'])}, "
            f"{clist(o['out'], coq_elem)}, {cz(o['ending'])})")


def comparable(r):
    """cases whose full observable result (outputs + ending) is compared with the model inside Coq"""
    return r['cfg']['mode'] in ('iter', 'collect') and r['obs'].get('out') is not None and r['obs'].get('ending') is not None


TRUSTED = [
    'Coq 8.16.1 kernel + vm_compute (differential evaluation); no native_compute; no axioms',
    'hand-written model coq/Model/Ops.v (push transducers mirroring each generator) and the named function library duplicated in Driver/DriverOps.v and harness/props/c03.py',
    'itertools.groupby (stdlib) behaves as documented; buffer/parmap are run for real (threads) and modelled by their C01/C05 sequential behaviour',
]
ASSUME = [
    'user functions are deterministic; groupby groups are consumed immediately (the check lists each group in a following map)',
    'shuffle: random.randrange/shuffle are replaced by a scripted oracle on both sides; the permutation theorem quantifies over all oracles',
]


def check(tier, seed, replay=None):
    from harness import core

    class P(core.Part):
        pass

    part = core.Part('ops', 'harness.props.c03', 'gen', 700, 12000, None, None,
                     lambda r: (r['oracle'], None) if r['oracle'] else None,
                     lambda r: len(r['cfg']['ops']) >= 2 and len(r['cfg']['xs']) >= 2,
                     key=lambda r: json.dumps(r['cfg'], sort_keys=True),
                     describe=lambda r: {'cfg': r['cfg'], 'observed': r['obs']})

    # `buffer` is the one sequential-meaning operator with a thread behind it: its identity (every element, then the source's
    # own ending) is also checked on the real Buffer under the deterministic scheduler, every run replayed in Model/Buffer.v
    # (the part, oracle and driver of the C05 check; timed queue reads may expire while the producer is merely slow).
    from harness.props import c05 as _c05
    bufpart = core.Part('buffer', 'harness.scen_stream', 'buffer', 300, 4000, 'DriverBuffer', _c05.ss.coq_buffer_case,
                        _c05.make_oracle('buffer'), _c05.nontrivial)

    def post(all_results, out, cov):
        rs = [r for r in all_results.get('ops', []) if comparable(r)]
        bad, problem = core.tv_eval(PROP, 'DriverOps', [coq_case(r) for r in rs], shard=350)
        if problem:
            out.violation('correspondence could not be evaluated: ' + problem,
                          {'stage': 'correspondence', 'problem': problem}, found_input=False)
        for i, code in bad:
            r = rs[i]
            if r['oracle']:
                continue
            out.violation(f'model/implementation correspondence broken (DriverOps.check_case code {code}): the real pipeline\'s '
                          f'result differs from Model.Ops.run_pipeline on this input; the reference oracle accepts it',
                          {'stage': 'correspondence', 'case': {'cfg': r['cfg']}, 'observed': r['obs'],
                           'theorem_or_correspondence': 'DriverOps.check_case'}, found_input=False)
        cov['traces_validated_against_impl'] = 0 if problem else len(rs) - len(bad)
        cov['correspondence_mismatches'] = len(bad)
        ops = {}
        for r in all_results.get('ops', []):
            for o in r['cfg']['ops']:
                ops[o[0]] = ops.get(o[0], 0) + 1
        cov['operator_distribution'] = ops
        cov['modes'] = {m: sum(1 for r in all_results.get('ops', []) if r['cfg']['mode'] == m) for m in ('iter', 'collect', 'drain', 'take')}
        cov['raising_cases'] = sum(1 for r in all_results.get('ops', []) if r['obs'].get('ending') not in (-1, None))

    return core.generic_check(
        PROP, tier, seed, [part, bufpart], TRUSTED, ASSUME,
        rule='random pipelines (0-6 operators from map/filter/filter_exceptions/peek/head/tail/batch/unbatch/groupby/accumulate/'
             'buffer/parmap/shuffle with boundary parameters 1, len-1, len, len+1) over random element lists (ints, None, exception '
             'objects incl. a subclass, nested lists; optional source failure), consumed by iteration, collect or drain; every tenth '
             'case is a one-to-one chain consumed for k outputs only (pull-count bound). Real Stream vs Coq model (vm_compute) vs an '
             'independent reference implementation. non-trivial = at least 2 operators and 2 elements; distinct = distinct case. '
             'Second part: the real Buffer (the thread behind `buffer`) under the deterministic scheduler, random interleavings, '
             'each logged run replayed in coq/Model/Buffer.v and judged by the identity oracle',
        replay=replay, post=post)


if __name__ == '__main__':
    impl_main(sys.argv[1:])
