"""C13 — hosted objects live exactly as long as some proxy refers to them.

impl side (python -m harness.props.c13 gen <seed> <n> <out.json> [corpus]): random histories of creating, pickling,
unpickling (once), passing to child processes (as process arguments and as pickles), storing in / removing from hosted
containers, returning via managed(), deleting proxies and exiting processes are executed on a real ServerProcess with the
main process and helper child processes as clients; after every step the server's debug_info (ids and reference counts) is
read, every so often live proxies are exercised, and /dev/shm is checked for memory blocks."""
from __future__ import annotations

import json
import os
import random
import sys
import threading
import time

PROP = 'C13'
SETTLE = 1.5


# ------------------------------------------------------------------------------------------------------------------
# independent reference bookkeeping (used to generate valid histories and as the runtime oracle)
# ------------------------------------------------------------------------------------------------------------------
class RefBook:
    def __init__(self):
        self.refs = []          # dicts: tag, holder ('proc', p) | ('transit', inh) | ('cont', obj), obj
        self.alive = []         # per object id
        self.kind = []

    def count(self, x):
        return sum(1 for r in self.refs if r['obj'] == x)

    def counts(self):
        return [self.count(x) if self.alive[x] else None for x in range(len(self.alive))]

    def new(self, kind):
        self.alive.append(True)
        self.kind.append(kind)
        return len(self.alive) - 1

    def add(self, tag, holder, obj):
        self.refs.append({'tag': tag, 'holder': holder, 'obj': obj})

    def get(self, tag):
        for r in self.refs:
            if r['tag'] == tag:
                return r
        return None

    def remove(self, tag):
        r = self.get(tag)
        self.refs.remove(r)
        self.sweep()

    def sweep(self):
        changed = True
        while changed:
            changed = False
            for x in range(len(self.alive)):
                if self.alive[x] and self.count(x) == 0:
                    self.alive[x] = False
                    self.refs = [r for r in self.refs if r['holder'] != ('cont', x)]
                    changed = True

    def proxies(self, p):
        return [r for r in self.refs if r['holder'] == ('proc', p)]

    def stored(self, x):
        return [r for r in self.refs if r['holder'] == ('cont', x)]


# ------------------------------------------------------------------------------------------------------------------
# history runner
# ------------------------------------------------------------------------------------------------------------------
class Runner:
    def __init__(self, manager, rng, length):
        from harness.c13_procs import Executor
        self.m, self.rng, self.length = manager, rng, length
        self.book = RefBook()
        self.local = Executor(manager)
        self.procs = {0: None}            # p -> (process, cmd_q, ack_q)
        self.next_tag = 1
        self.next_proc = 1
        self.ops = []                     # model operations (lists)
        self.steps = []                   # per op: observed counts by object id, expected counts, notes
        self.ident_of = {}                # object id -> server ident
        self.transit_bytes = {}           # transit tag -> hex pickle
        self.dictkeys = {}                # stored tag -> key (dict containers)
        self.mem_names = {}
        self.problems = []
        self.made = {}                    # factory object id -> object ids it has made, in order
        self.lost = []                    # objects with a reference held by a pickle that never left (known finding C13-PKL)

    # -- plumbing ------------------------------------------------------------------------------
    def tag(self):
        t = self.next_tag
        self.next_tag += 1
        return t

    def call(self, p, cmd, timeout=20):
        if p == 0:
            return self.local.do(cmd)
        proc, cq, aq = self.procs[p]
        cq.put(cmd)
        try:
            return aq.get(timeout=timeout)
        except Exception as e:  # noqa
            return ['exc', 'Timeout', f'no answer from process {p}: {e!r}', '']

    def start_helper(self, initial):
        from harness.c13_procs import helper_main
        from mpservice.multiprocessing import Process, Queue
        p = self.next_proc
        self.next_proc += 1
        cq, aq = Queue(), Queue()
        proc = Process(target=helper_main, args=(self.m, cq, aq, initial), name=f'c13-helper-{p}')
        proc.start()
        self.procs[p] = (proc, cq, aq)
        r = aq.get(timeout=30)
        assert r == ['ok', 'ready'], r
        return p

    def debug_info(self):
        from multiprocessing.managers import dispatch
        conn = self.m._Client(self.m._address, authkey=self.m._authkey)
        try:
            return {d['id']: d['refcount:'] for d in dispatch(conn, None, 'debug_info')}
        finally:
            conn.close()

    def observe(self, new_obj=None):
        """poll until the server's table equals the expectation or SETTLE seconds have passed"""
        want = self.book.counts()
        t0 = time.time()
        while True:
            info = self.debug_info()
            if new_obj is not None and new_obj not in self.ident_of:
                fresh = [k for k in info if k not in self.ident_of.values()]
                if len(fresh) == 1:
                    self.ident_of[new_obj] = fresh[0]
            obs = [info.get(self.ident_of.get(x)) if x in self.ident_of else None for x in range(len(want))]
            extra = sorted(k for k in info if k not in self.ident_of.values())
            if (obs == want and not extra) or time.time() - t0 > SETTLE:
                return obs, want, extra
            time.sleep(0.02)

    def record(self, op, new_obj=None, note=None):
        self.ops.append(op)
        obs, want, extra = self.observe(new_obj)
        # a destroyed object's ident may be reused by a later object: forget the mapping of dead objects
        for x, a in enumerate(self.book.alive):
            if not a and obs[x] is None:
                self.ident_of.pop(x, None)
        st = {'op': op, 'observed': obs, 'expected': want, 'unmapped': extra}
        if note:
            st['note'] = note
        shm = {}
        for x, name in self.mem_names.items():
            shm[str(x)] = os.path.exists('/dev/shm/' + name)
        st['shm'] = shm
        self.steps.append(st)

    # -- operations ------------------------------------------------------------------------------
    def do_create(self, p, kind, ftag=None):
        t = self.tag()
        r = self.call(p, ['create', kind, t] if kind != 'managed' else ['create_managed', ftag, t])
        if r[0] != 'ok':
            self.problems.append(f'create {kind} in process {p} failed: {r[1:3]}')
            return
        x = self.book.new(kind)
        self.book.add(t, ('proc', p), x)
        if kind == 'managed':
            self.made.setdefault(self.book.get(ftag)['obj'], []).append(x)
        if kind == 'mem':
            self.mem_names[x] = r[1]
        self.record(['create', p, t], new_obj=x)

    def do_again(self, p, ftag, x, k):
        """a hosted method returns managed(value) for a value that is already hosted (object x, which has the live proxy k):
        for the reference count this is one more reference to x, like pickling k and unpickling it in p"""
        f = self.book.get(ftag)['obj']
        t, tt = self.tag(), self.tag()
        r = self.call(p, ['again', ftag, self.made[f].index(x), t])
        if r[0] != 'ok':
            self.problems.append(f'managed() of the already hosted object {x} failed in process {p}: {r[1:3]}')
            return
        self.book.add(t, ('proc', p), x)
        self.ops.append(['pickle', k, 0, tt])
        self.steps.append({'op': ['pickle', k, 0, tt], 'observed': None, 'expected': None, 'unmapped': [], 'shm': {}})
        self.record(['unpickle', tt, p, t], note='managed() of an already hosted value')

    def do_pickle(self, p, tag):
        r = self.call(p, ['pickle', tag])
        if r[0] != 'ok':
            self.problems.append(f'pickling proxy {tag} in process {p} failed: {r[1:3]}')
            return
        t = self.tag()
        self.transit_bytes[t] = r[1]
        self.book.add(t, ('transit', False), self.book.get(tag)['obj'])
        self.record(['pickle', tag, 0, t])

    def do_unpickle(self, ttag, p):
        t = self.tag()
        r = self.call(p, ['unpickle', self.transit_bytes.pop(ttag), t])
        if r[0] != 'ok':
            self.problems.append(f'unpickling in process {p} failed: {r[1:3]}')
            return
        x = self.book.get(ttag)['obj']
        self.book.add(t, ('proc', p), x)
        self.book.remove(ttag)
        self.record(['unpickle', ttag, p, t])

    def do_spawn(self, tags):
        """a new child process gets proxies as process arguments (unpickled while the child is being bootstrapped)"""
        initial = []
        pnew = self.next_proc
        plan = []
        for tag in tags:
            tt, t = self.tag(), self.tag()
            initial.append((t, self.local.slots[tag]))
            plan.append((tag, tt, t))
        self.start_helper(initial)
        del initial
        # all arguments travel together: the table is compared after the last one
        for i, (tag, tt, t) in enumerate(plan):
            x = self.book.get(tag)['obj']
            self.book.add(t, ('proc', pnew), x)
        for i, (tag, tt, t) in enumerate(plan):
            self.ops.append(['pickle', tag, 1, tt])
            self.steps.append({'op': ['pickle', tag, 1, tt], 'observed': None, 'expected': None, 'unmapped': [], 'shm': {}})
            if i < len(plan) - 1:
                self.ops.append(['unpickle', tt, pnew, t])
                self.steps.append({'op': ['unpickle', tt, pnew, t], 'observed': None, 'expected': None, 'unmapped': [], 'shm': {}})
            else:
                self.record(['unpickle', tt, pnew, t])

    def do_drop(self, p, tag):
        r = self.call(p, ['drop', tag])
        if r[0] != 'ok':
            self.problems.append(f'dropping proxy {tag} failed: {r[1:3]}')
        self.book.remove(tag)
        self.record(['drop', tag])

    def do_store(self, p, tag, ctag):
        c = self.book.get(ctag)['obj']
        key = None if self.book.kind[c] != 'dict' else f'k{self.next_tag}'
        r = self.call(p, ['store', tag, ctag, key])
        if r[0] != 'ok':
            self.problems.append(f'storing proxy {tag} in container {c} failed: {r[1:3]}')
            return
        t = self.tag()
        if key is not None:
            self.dictkeys[t] = key
        self.book.add(t, ('cont', c), self.book.get(tag)['obj'])
        self.record(['store', tag, c, t])

    def do_remove(self, p, ctag, keep):
        c = self.book.get(ctag)['obj']
        st = self.book.stored(c)
        sr = st[-1] if self.book.kind[c] != 'dict' else self.rng.choice(st)
        t = self.tag()
        r = self.call(p, ['remove', ctag, self.dictkeys.get(sr['tag']), keep, t])
        if r[0] != 'ok':
            self.problems.append(f'removing from container {c} failed: {r[1:3]}')
            return
        x = sr['obj']
        if keep:
            self.book.add(t, ('proc', p), x)
        self.book.remove(sr['tag'])
        self.record(['remove', sr['tag'], p, 1 if keep else 0, t])

    def do_fail_with(self, p, ftag, tag):
        """a hosted method is given proxy `tag` as an argument and raises: no reference may be left behind"""
        r = self.call(p, ['fail_with', ftag, tag])
        if r[0] != 'ok':
            self.problems.append(f'failing call with proxy {tag} as an argument went wrong in process {p}: {r[1:3]}')
            return
        self.record(['failwith', tag])

    def do_bad_pickle(self, p, tag, ctag):
        """proxy `tag` is pickled as part of a message whose pickling then fails (known finding C13-PKL: the reference added
        by __reduce__ is never given back); recorded as a pickle that is never unpickled"""
        r = self.call(p, ['bad_pickle', tag, ctag])
        if r[0] != 'ok':
            self.problems.append(f'bad_pickle with proxy {tag} went wrong in process {p}: {r[1:3]}')
            return
        t = self.tag()
        x = self.book.get(tag)['obj']
        self.book.add(t, ('lost', False), x)
        self.lost.append(x)
        self.record(['pickle', tag, 0, t], note='pickle of a message that then failed as a whole')

    def do_exit(self, p, hard=False):
        proc, cq, aq = self.procs.pop(p)
        cq.put(['hard_exit'] if hard else ['exit'])
        try:
            aq.get(timeout=20)
        except Exception:  # noqa
            pass
        proc.join(20)
        if proc.exitcode is None:
            self.problems.append(f'helper process {p} did not exit')
            proc.kill()
        for r in list(self.book.proxies(p)):
            self.book.refs.remove(r)
        self.book.sweep()
        self.record(['exit', p])

    def do_use(self, p, tag):
        r = self.call(p, ['use', tag])
        x = self.book.get(tag)['obj']
        if r[0] != 'ok':
            self.problems.append(f'proxy {tag} to object {x} (expected count {self.book.count(x)}) is not usable in process {p}: {r[1:3]}')

    # -- history -----------------------------------------------------------------------------------
    def run(self, bad_pickle=False):
        rng = self.rng
        self.start_helper([])
        self.start_helper([])
        self.do_create(0, 'list')
        self.do_create(0, 'factory')
        for _ in range(self.length):
            self.random_op()
            if len(self.problems) > 3:
                break
        if bad_pickle:
            mine = self.book.proxies(0)
            conts = [r for r in mine if self.book.kind[r['obj']] == 'list']
            if conts and mine:
                self.do_bad_pickle(0, rng.choice(mine)['tag'], conts[0]['tag'])
        # wind down: everything is dropped; the table must become empty
        for t in list(self.transit_bytes):
            self.do_unpickle(t, 0)
        for p in [q for q in self.procs if q != 0]:
            self.do_exit(p)
        for r in list(self.book.proxies(0)):
            self.do_drop(0, r['tag'])
        return {'ops': self.ops, 'steps': self.steps, 'problems': self.problems, 'lost': self.lost,
                'final_table': self.debug_info(), 'mem_left': {str(x): os.path.exists('/dev/shm/' + n) for x, n in self.mem_names.items()}}

    def random_op(self):
        rng, book = self.rng, self.book
        procs = sorted(self.procs)
        for _ in range(30):
            kind = rng.choice(['create', 'create', 'pickle', 'unpickle', 'unpickle', 'spawn', 'drop', 'drop', 'store', 'store',
                               'remove', 'remove', 'exit', 'use', 'use', 'again', 'again', 'failwith', 'failwith'])
            p = rng.choice(procs)
            mine = book.proxies(p)
            if kind == 'create':
                k = rng.choice(['list', 'list', 'dict', 'mem', 'managed', 'managed', 'factory'])
                if k == 'managed':
                    fs = [r for r in mine if book.kind[r['obj']] == 'factory']
                    if not fs:
                        continue
                    return self.do_create(p, 'managed', rng.choice(fs)['tag'])
                return self.do_create(p, k)
            if kind == 'again':
                cands = []
                for fr in mine:
                    if book.kind[fr['obj']] == 'factory':
                        for x in self.made.get(fr['obj'], []):
                            ks = [r for r in book.refs if r['obj'] == x and r['holder'][0] == 'proc'] if book.alive[x] else []
                            if ks:
                                cands.append((fr['tag'], x, ks[0]['tag']))
                if cands:
                    ftag, x, k = rng.choice(cands)
                    return self.do_again(p, ftag, x, k)
                continue
            if kind == 'failwith':
                fs = [r for r in mine if book.kind[r['obj']] == 'factory']
                if fs and mine:
                    return self.do_fail_with(p, rng.choice(fs)['tag'], rng.choice(mine)['tag'])
                continue
            if kind == 'pickle' and mine:
                return self.do_pickle(p, rng.choice(mine)['tag'])
            if kind == 'unpickle' and self.transit_bytes:
                return self.do_unpickle(rng.choice(sorted(self.transit_bytes)), p)
            if kind == 'spawn' and book.proxies(0) and len(self.procs) < 5:
                k = rng.choice([1, 1, 2])
                return self.do_spawn([r['tag'] for r in rng.sample(book.proxies(0), min(k, len(book.proxies(0))))])
            if kind == 'drop' and mine and (p != 0 or len(mine) > 1 or rng.random() < 0.3):
                return self.do_drop(p, rng.choice(mine)['tag'])
            if kind == 'store' and mine:
                conts = [r for r in mine if book.kind[r['obj']] in ('list', 'dict', 'managed')]
                if conts:
                    c = rng.choice(conts)
                    return self.do_store(p, rng.choice(mine)['tag'], c['tag'])
            if kind == 'remove':
                conts = [r for r in mine if book.kind[r['obj']] in ('list', 'dict', 'managed') and book.stored(r['obj'])]
                if conts:
                    return self.do_remove(p, rng.choice(conts)['tag'], rng.random() < 0.5)
            if kind == 'exit' and p != 0 and len(self.procs) > 2 and rng.random() < 0.5:
                return self.do_exit(p, hard=False)
            if kind == 'use' and mine:
                return self.do_use(p, rng.choice(mine)['tag'])
        return None


PKL_KEY = 'C13-PKL-failed-pickle-leaks-reference'


def oracle(res):
    if res.get('crash'):
        return 'harness/implementation crashed: ' + res['crash']
    if res['problems']:
        return res['problems'][0]
    for i, st in enumerate(res['steps']):
        if st['observed'] is None:
            continue
        if st['observed'] != st['expected'] or st['unmapped']:
            bad = [(x, o, w) for x, (o, w) in enumerate(zip(st['observed'], st['expected'])) if o != w]
            return (f'after step {i} {st["op"]} the server table differs from the references that exist: '
                    f'(object, server count, references) = {bad[:4]}; unknown entries {st["unmapped"][:3]} '
                    f'(None = destroyed / absent)')
        for x, there in st['shm'].items():
            alive = st['expected'][int(x)] is not None
            if there != alive:
                return f'after step {i} {st["op"]} shared memory of object {x} exists={there} but the object is {"referenced" if alive else "unreferenced"}'
    # (hosted containers that refer to each other keep themselves alive: those references still exist)
    last = res['steps'][-1]['expected'] if res['steps'] else []
    if res.get('lost'):
        return (f'objects {sorted(set(res["lost"]))} stay hosted for ever: each has a reference added by __reduce__ for a message whose '
                f'pickling then failed, which nobody will give back (server table at the end: {res["final_table"]})', PKL_KEY)
    still = sum(1 for v in last if v is not None)
    if len(res['final_table']) != still:
        return f'after every proxy was dropped the server hosts {res["final_table"]} but {still} objects are still referenced from hosted containers'
    for x, there in res['mem_left'].items():
        if there and (int(x) >= len(last) or last[int(x)] is None):
            return f'shared memory block of object {x} left behind although nothing refers to it'
    return None


def two_managers_check():
    """References that live in ANOTHER manager's server: a proxy of an object of manager A stored in a container hosted by
    manager B (or passed to a call on an object of B) and then dropped there must give its reference back to A. Not part of
    the Coq history model (one manager); judged here."""
    from multiprocessing.managers import dispatch
    from mpservice.multiprocessing.server_process import ServerProcess

    def table(m):
        conn = m._Client(m._address, authkey=m._authkey)
        try:
            return {d['id']: (d['refcount:'], d['type']) for d in dispatch(conn, None, 'debug_info')}
        finally:
            conn.close()

    def settle(m, want, what, problems):
        t0 = time.time()
        while time.time() - t0 < 10:
            got = sorted(v for v in table(m).values())
            if got == want:
                return
            time.sleep(0.05)
        problems.append(f'two managers, {what}: manager A hosts {got}, expected {want}')

    problems = []
    with ServerProcess() as A, ServerProcess() as B:
        a = A.list([1, 2, 3])
        holder = B.list()
        holder.append(a)                      # a proxy of A's list now lives inside B's server
        settle(A, [(2, 'list')], 'client proxy + a proxy stored in a list of B', problems)
        del a
        settle(A, [(1, 'list')], 'only the proxy stored in B is left', problems)
        if holder[0][1] != 2:
            problems.append('two managers: the object is not usable through the proxy stored in B')
        holder.pop()                          # dropped inside B: the reference must go back to A
        settle(A, [], 'the proxy stored in B was removed', problems)
        d = B.dict()
        a2 = A.list(['x'])
        d['k'] = a2
        del a2
        settle(A, [(1, 'list')], 'a proxy stored in a dict of B', problems)
        del d                                 # the container itself goes away
        settle(A, [], 'the dict of B that held the proxy was destroyed', problems)
        # a hosted class whose constructor hosts something itself
        box = {}

        def ctor():
            h = A.CtorHolder()
            box['items'] = list(h.get())
            del h
        th = threading.Thread(target=ctor, daemon=True)
        th.start()
        th.join(10)
        if box.get('items') != [1, 2]:
            problems.append(f'a hosted class whose constructor calls managed_list(): creating it did not return within 10 s '
                            f'(got {box.get("items")}); the server is dead-locked')
            A._process.kill()
        else:
            settle(A, [], 'the holder and the list its constructor hosted are gone after the last proxy', problems)
    return problems


def impl_main(argv):
    import logging
    logging.disable(logging.CRITICAL)
    what, seed, n, outp = argv[0], int(argv[1]), int(argv[2]), argv[3]
    rest = argv[4:]
    corpus = json.load(open(rest[0])) if rest else []
    from mpservice.multiprocessing.server_process import ServerProcess
    import harness.c13_procs  # noqa (registers Factory)
    rng = random.Random(seed)
    out = []
    specs = [c['cfg'] for c in corpus] + [{'seed': rng.randrange(10**9), 'length': rng.choice([5, 10, 20, 30, 40])} for _ in range(n)]
    if specs:
        specs[0] = dict(specs[0], bad_pickle=True)      # one history per run ends with the known finding C13-PKL
    import gc
    gc.disable()      # see harness/props/c14.py: collections only at safe points (CPython 3.12.1 thread-start / finalizer deadlock)
    for spec in specs:
        gc.collect()
        t0 = time.time()
        try:
            with ServerProcess() as m:
                res = Runner(m, random.Random(spec['seed']), spec['length']).run(bad_pickle=spec.get('bad_pickle', False))
        except BaseException as e:  # noqa
            import traceback
            res = {'crash': repr(e)[:300] + ' | ' + traceback.format_exc()[-500:], 'ops': [], 'steps': [], 'problems': [],
                   'final_table': {}, 'mem_left': {}}
        res['elapsed'] = round(time.time() - t0, 2)
        if spec is specs[0] and not res.get('crash'):
            try:
                res['problems'] = list(res['problems']) + two_managers_check()
            except BaseException as e:  # noqa
                res['problems'] = list(res['problems']) + ['two managers: the scenario crashed: ' + repr(e)[:200]]
        orc = oracle(res)
        if isinstance(orc, tuple):
            orc, key = orc
        else:
            key = None
        out.append({'cfg': spec, 'obs': res, 'oracle': orc, 'oracle_key': key, 'strategy': f'len{spec["length"]}', 'verdict': 'ok'})
    json.dump(out, open(outp, 'w'))
    sys.stdout.flush()
    os._exit(0)


def coq_case(r):
    from harness.core import clist, cnat
    res = r['obs']

    def cop(o):
        k = o[0]
        if k == 'create':
            return f'OCreate {cnat(o[1])} {cnat(o[2])}'
        if k == 'pickle':
            return f'OPickle {cnat(o[1])} {"true" if o[2] else "false"} {cnat(o[3])}'
        if k == 'unpickle':
            return f'OUnpickle {cnat(o[1])} {cnat(o[2])} {cnat(o[3])}'
        if k == 'drop':
            return f'ODrop {cnat(o[1])}'
        if k == 'store':
            return f'OStore {cnat(o[1])} {cnat(o[2])} {cnat(o[3])}'
        if k == 'remove':
            return f'ORemove {cnat(o[1])} {cnat(o[2])} {"true" if o[3] else "false"} {cnat(o[4])}'
        if k == 'exit':
            return f'OExit {cnat(o[1])}'
        if k == 'failwith':
            return f'OFailWith {cnat(o[1])}'
        raise ValueError(o)

    def cobs(st):
        if st['observed'] is None:
            return 'None'
        return 'Some ' + clist(st['observed'], lambda v: 'None' if v is None else f'(Some {cnat(v)})')

    return f"({clist(res['ops'], cop)}, {clist(res['steps'], cobs)})"


TRUSTED = [
    'Coq 8.16.1 kernel + vm_compute; no native_compute; no axioms',
    'hand-written model coq/Model/Refcount.v (every history operation expanded into the increments / decrements the code performs, '
    'in code order; destruction cascade through hosted containers)',
    'differential check on a real ServerProcess with the main process and helper child processes as clients: the server\'s '
    'debug_info after every step against the model\'s count table, inside Coq',
    'CPython finalizes an unreachable proxy promptly (reference counting); the server\'s table is read through a fresh connection and '
    'polled for up to 1.5 s per step',
]
ASSUME = [
    'a pickle is unpickled at most once (as the property states); a pickle that is never unpickled keeps its reference',
    'client processes end by returning from their target (interpreter exit handlers run); processes killed by a signal keep their references',
    'the server process itself does not crash',
]


def check(tier, seed, replay=None):
    from harness import core
    part = core.Part('histories', 'harness.props.c13', 'gen', 10, 150, 'DriverRef', coq_case,
                     lambda r: (r['oracle'], r.get('oracle_key')) if r['oracle'] else None,
                     lambda r: len(r['obs']['ops']) >= 10,
                     key=lambda r: json.dumps(r['obs']['ops']),
                     describe=lambda r: {'cfg': r['cfg'], 'ops': r['obs']['ops'], 'problems': r['obs']['problems'],
                                         'last_steps': r['obs']['steps'][-3:], 'final_table': r['obs'].get('final_table')},
                     shard=5)

    def post(all_results, out, cov):
        rs = all_results.get('histories', [])
        kinds = {}
        for r in rs:
            for o in r['obs']['ops']:
                kinds[o[0]] = kinds.get(o[0], 0) + 1
        cov['operations'] = kinds
        cov['steps_compared'] = sum(1 for r in rs for st in r['obs']['steps'] if st['observed'] is not None)
        cov['inheriting_unpickles'] = sum(1 for r in rs for o in r['obs']['ops'] if o[0] == 'pickle' and o[2])
        cov['objects_created'] = sum(1 for r in rs for o in r['obs']['ops'] if o[0] == 'create')
        cov['memory_blocks'] = sum(len(r['obs'].get('mem_left', {})) for r in rs)

    return core.generic_check(
        PROP, tier, seed, [part], TRUSTED, ASSUME,
        rule='random histories of 5-40 operations over {create list/dict/MemoryBlock, pickle, unpickle once in any process, start a child '
             'with proxies as process arguments, delete a proxy, store a proxy in a hosted list/dict, pop it back (kept or dropped), managed() of a new and of an already hosted value, '
             'use, child exits} on one real ServerProcess with the main process and 2-4 helper processes; after each step the server table is compared '
             'with the references that exist (oracle) and with the Coq model (correspondence); at the end everything is dropped and the table '
             'and /dev/shm must be empty. non-trivial = at least 10 operations; distinct = distinct operation list',
        replay=replay, post=post)


if __name__ == '__main__':
    impl_main(sys.argv[1:])
