"""Full-stack scheduled scenarios: the real Server over real ThreadServlet / SequentialServlet /
EnsembleServlet / SwitchServlet trees with real Worker objects, all running under the deterministic
scheduler (virtual primitives injected into _server, _servlet, _worker, _queues, _streamer).
Used by C02 (no cross-talk), C04 (failure isolation), C11 (start/stop)."""
from __future__ import annotations

import random
import types

from . import detsched, inject, vprims


class StageErr(Exception):
    def __init__(self, code):
        super().__init__(code)
        self.code = code


class PreErr(Exception):
    def __init__(self, code):
        super().__init__(code)
        self.code = code


class InitErr(Exception):
    def __init__(self, code):
        super().__init__(code)
        self.code = code


class FalsyStageErr(StageErr):
    """a falsy exception object (container-like): still a failure"""
    def __len__(self):
        return 0


class FalsyPreErr(PreErr):
    def __bool__(self):
        return False


def stage_err(code):
    return (FalsyStageErr if code % 4 == 3 else StageErr)(code)


def pre_err(code):
    return (FalsyPreErr if code % 4 == 1 else PreErr)(code)


def err_class_name(code, pre):
    return ('FalsyPreErr' if code % 4 == 1 else 'PreErr') if pre else ('FalsyStageErr' if code % 4 == 3 else 'StageErr')


# ---- servlet tree descriptions -----------------------------------------------------------------
# leaf: {'t': 'leaf', 'k': stage id, 'n': threads, 'b': batch_size, 'fail': {x: code}, 'pre_fail': {x: code}, 'init_fail': worker index|None}
# seq:  {'t': 'seq', 'c': [trees]}   ens: {'t': 'ens', 'c': [trees], 'ff': bool}   sw: {'t': 'sw', 'c': [trees]}

def stage_value(k, x):
    return x * 10 + k


def gen_leaf(rng, k, xs, allow_init_fail=False):
    fail = {x: rng.randrange(30, 34) for x in xs if rng.random() < 0.12}
    b = rng.choice([0, 0, 1, 3])
    pre_fail = {x: rng.randrange(40, 44) for x in xs if rng.random() < 0.08} if rng.random() < 0.4 else {}
    n = rng.choice([1, 1, 2, 3])
    init_fail = rng.randrange(0, n) if allow_init_fail and rng.random() < 0.5 else None
    dur = rng.choice([0, 0, 0.002, 0.05, 1.0])     # virtual seconds spent inside call(): relative speeds of the stages
    return {'t': 'leaf', 'k': k, 'n': n, 'b': b, 'fail': fail, 'pre_fail': pre_fail, 'init_fail': init_fail, 'dur': dur}


def gen_tree(rng, xs, depth=0, counter=None, allow_init_fail=False):
    counter = counter if counter is not None else [0]
    r = rng.random()
    if depth >= 1 or r < 0.35:
        counter[0] += 1
        return gen_leaf(rng, counter[0], xs, allow_init_fail)
    kind = rng.choice(['seq', 'ens', 'ens', 'sw'])
    m = rng.choice([2, 2, 3])
    children = [gen_tree(rng, xs, depth + 1, counter, allow_init_fail) for _ in range(m)]
    if kind == 'ens':
        return {'t': 'ens', 'c': children, 'ff': rng.random() < 0.6}
    if kind == 'sw' and xs and rng.random() < 0.5:
        # switch() itself (user code) fails for one input
        return {'t': kind, 'c': children, 'sw_fail': {str(rng.choice(list(xs))): 36}}
    return {'t': kind, 'c': children}


def spec(tree, v):
    """sequential meaning: ('ok', value) | ('err', code) | ('ens', None) for an EnsembleError.
    v is an int or a list (nested ensemble results)."""
    t = tree['t']
    if t == 'leaf':
        key = v if isinstance(v, int) else None
        if key is not None and key in {int(a) for a in tree['pre_fail']}:
            return ('err', {int(a): b for a, b in tree['pre_fail'].items()}[key])
        if key is not None and key in {int(a) for a in tree['fail']}:
            return ('err', {int(a): b for a, b in tree['fail'].items()}[key])
        return ('ok', leaf_fn(tree['k'], v))
    if t == 'seq':
        cur = ('ok', v)
        for c in tree['c']:
            if cur[0] != 'ok':
                return cur
            cur = spec(c, cur[1])
        return cur
    if t == 'sw':
        if isinstance(v, int) and str(v) in tree.get('sw_fail', {}):
            return ('err', tree['sw_fail'][str(v)])
        idx = switch_index(v, len(tree['c']))
        return spec(tree['c'][idx], v)
    rs = [spec(c, v) for c in tree['c']]
    if tree['ff']:
        if any(r[0] != 'ok' for r in rs):
            return ('ens', None)
        return ('ok', [r[1] for r in rs])
    if all(r[0] != 'ok' for r in rs):
        return ('ens', None)
    return ('ok', [r[1] if r[0] == 'ok' else ('E', r) for r in rs])


def leaf_fn(k, v):
    if isinstance(v, int):
        return stage_value(k, v)
    return [k, v]          # a stage applied to a list (after an ensemble): tag it


def switch_index(v, m):
    base = v if isinstance(v, int) else 0
    return base % m


def canon(y):
    """canonical form of a result for comparison with spec"""
    from mpservice.multiprocessing.remote_exception import EnsembleError, RemoteException
    if isinstance(y, RemoteException):
        y = y.exc
    if isinstance(y, EnsembleError):
        return ('ens', None)
    if isinstance(y, BaseException):
        return ('err', getattr(y, 'code', 999))
    if isinstance(y, list):
        return ('ok', [canon_inner(e) for e in y])
    return ('ok', y)


def canon_inner(e):
    from mpservice.multiprocessing.remote_exception import EnsembleError, RemoteException
    if isinstance(e, RemoteException):
        e = e.exc
    if isinstance(e, EnsembleError):
        return ('E', ('ens', None))
    if isinstance(e, BaseException):
        return ('E', ('err', getattr(e, 'code', 999)))
    if isinstance(e, list):
        return [canon_inner(x) for x in e]
    return e


def exc_details(e):
    """class name, args and whether the traceback (live, or as remote text) shows the failure site"""
    import traceback

    from mpservice.multiprocessing.remote_exception import get_remote_traceback, is_remote_exception
    try:
        text = ''.join(traceback.format_exception(type(e), e, e.__traceback__))
    except Exception:  # noqa
        text = ''
    if is_remote_exception(e):
        text += get_remote_traceback(e)
    return {'cls': type(e).__name__, 'args': [a if isinstance(a, (int, str)) else repr(a)[:40] for a in e.args[:1]],
            'site': ('in call' in text) or ('in _pre' in text) or ('in switch' in text), 'nframes': text.count('File "')}


def jsonable(c):
    if isinstance(c, tuple):
        return [jsonable(x) for x in c]
    if isinstance(c, list):
        return [jsonable(x) for x in c]
    return c


def gen_cfg(rng, allow_init_fail=False):
    m = rng.choice([1, 2, 3, 4])
    per = rng.choice([1, 1, 2, 3])
    xs = list(range(1, m * per + 1))
    tree = gen_tree(rng, xs, allow_init_fail=allow_init_fail)
    return {'tree': tree, 'callers': [{'xs': xs[i * per:(i + 1) * per], 'timeout': rng.choice([5, 1000, 1000])} for i in range(m)],
            'capacity': rng.choice([1, 2, 3, 8]), 'id_reuse': rng.random() < 0.6,
            'timers_adversarial': rng.random() < 0.3, 'cycles': 1 if not allow_init_fail else rng.choice([1, 2])}


# ---- building the real servlet tree -------------------------------------------------------------

def build(tree, S, calls_log):
    from mpservice.mpserver import EnsembleServlet, SequentialServlet, SwitchServlet, ThreadServlet, Worker
    t = tree['t']
    if t == 'leaf':
        fail = {int(a): b for a, b in tree['fail'].items()}
        pre_fail = {int(a): b for a, b in tree['pre_fail'].items()}
        k, b, init_fail = tree['k'], tree['b'], tree['init_fail']
        dur = tree.get('dur', 0)

        class W(Worker):
            def __init__(self, **kw):
                super().__init__(batch_size=b, batch_wait_time=(2 if b > 1 else None), **kw)
                if init_fail is not None and self.worker_index == init_fail and S.flags.get('init_fail_armed', True):
                    raise InitErr(k)
                if pre_fail:
                    self.preprocess = self._pre

            def _pre(self, x):
                if isinstance(x, int) and x in pre_fail:
                    raise pre_err(pre_fail[x])
                return x

            def call(self, x):
                S.yield_point('worker.call')
                if dur:
                    vprims.VClockNS.sleep(dur)
                calls_log.append((k, x if not isinstance(x, list) else list(x)))
                if b > 0:
                    out = []
                    for e in x:
                        if isinstance(e, int) and e in fail:
                            raise stage_err(fail[e])       # a failing element fails the whole batch
                        out.append(leaf_fn(k, e))
                    return out
                if isinstance(x, int) and x in fail:
                    raise stage_err(fail[x])
                return leaf_fn(k, x)

        W.__name__ = f'W{k}'
        return ThreadServlet(W, num_threads=tree['n'])
    children = [build(c, S, calls_log) for c in tree['c']]
    if t == 'seq':
        return SequentialServlet(*children)
    if t == 'ens':
        return EnsembleServlet(*children, fail_fast=tree['ff'])
    m = len(children)

    sw_fail = tree.get('sw_fail', {})

    class Sw(SwitchServlet):
        def switch(self, x):
            if isinstance(x, int) and str(x) in sw_fail:
                raise StageErr(sw_fail[str(x)])
            return switch_index(x, m)
    return Sw(*children)


class IdAllocator:
    """allocator oracle for `id(future)`: small integers; an id may be handed out again as soon as the
    object it named is gone (most recently freed first) - what CPython's allocator may legally do."""

    def __init__(self, reuse):
        import weakref
        self.weakref = weakref
        self.reuse = reuse
        self.live = {}
        self.free = []
        self.next = 1

    def __call__(self, obj):
        if self.reuse:
            # a future that failed sits in a reference cycle (exception -> traceback -> frame -> future) and is
            # freed by the cyclic collector, which may run at any allocation: let it run now
            import gc
            gc.collect()
        for k in list(self.live):
            if self.live[k]() is None:
                del self.live[k]
                self.free.append(k)
        if self.reuse and self.free:
            k = self.free.pop()
        else:
            k = self.next
            self.next += 1
        try:
            self.live[k] = self.weakref.ref(obj)
        except TypeError:
            pass
        return k


def run_stack(cfg, strategy, max_steps=250000):
    import logging

    from mpservice.mpserver import _server, _servlet, _worker
    for m in (_server, _servlet, _worker):
        m.logger.setLevel(logging.ERROR)
    S = detsched.Sched(strategy, max_steps=max_steps, timers_adversarial=cfg.get('timers_adversarial', False))
    S.flags = {'init_fail_armed': True}
    S.keep_log = False        # the event log would keep failed futures alive and mask id reuse
    calls_log = []
    res = {'outcome': None, 'cycles': []}
    vthreading = vprims.make_threading_ns()

    class STQ(vprims.VSimpleQueue):
        _n = [0]

        def __init__(self):
            STQ._n[0] += 1
            super().__init__(name=f'stq{STQ._n[0]}')
            self._rlock = vprims.VRLock()
    STQ._n = [0]
    vqueue = vprims.make_queue_ns()
    alloc = IdAllocator(cfg.get('id_reuse', False))

    def body():
        import threading
        tree = cfg['tree']
        servlet = build(tree, S, calls_log)
        server = _server.Server(servlet, capacity=cfg['capacity'])
        for cyc in range(cfg.get('cycles', 1)):
            info = {'enter_error': None, 'results': {}, 'exit_error': None, 'live_after_enter_fail': None,
                    'calls_from': len(calls_log)}
            res['cycles'].append(info)
            try:
                server.__enter__()
            except detsched.Abort:
                raise
            except BaseException as e:  # noqa
                info['enter_error'] = [type(e).__name__, getattr(e, 'code', None)]
                info['live_after_enter_fail'] = sorted(t.name for t in S.threads if t.state != 'done' and t.name != 'main')
                S.flags['init_fail_armed'] = False      # the next cycle must be able to start
                continue
            try:
                def caller(i, info=info):
                    c = cfg['callers'][i]
                    for x in c['xs']:
                        try:
                            y = server.call(x, timeout=c['timeout'], backpressure=False)
                            info['results'][str(x)] = jsonable(canon(y))
                        except detsched.Abort:
                            raise
                        except _server.TimeoutError:
                            info['results'][str(x)] = ['timeout']
                        except _server.ServerBacklogFull:
                            info['results'][str(x)] = ['rejected']
                        except BaseException as e:  # noqa
                            info['results'][str(x)] = jsonable(canon(e))
                            info.setdefault('exc_details', {})[str(x)] = exc_details(e)
                ts = [threading.Thread(target=caller, args=(i,), name=f'caller-{i}') for i in range(len(cfg['callers']))]
                for t in ts:
                    t.start()
                for t in ts:
                    t.join()
            finally:
                try:
                    server.__exit__(None, None, None)
                except detsched.Abort:
                    raise
                except BaseException as e:  # noqa
                    info['exit_error'] = repr(e)[:200]
            info['live_after_exit'] = sorted(t.name for t in S.threads if t.state != 'done' and t.name != 'main')
            info['ledger_after_exit'] = len(server._uid_to_futures)
        res['outcome'] = ['finished']

    extra = [
        (_server, 'threading', vthreading), (_server, 'queue', vqueue), (_server, 'concurrent', vprims.make_concurrent_ns()),
        (_server, 'perf_counter', vprims.VClockNS.perf_counter), (_server, 'id', alloc), (_server, '_SimpleThreadQueue', STQ),
        (_servlet, 'sleep', vprims.VClockNS.sleep), (_servlet, '_SimpleThreadQueue', STQ),
        (_worker, 'threading', vthreading), (_worker, 'queue', vqueue), (_worker, 'perf_counter', vprims.VClockNS.perf_counter),
        (_worker, '_SimpleThreadQueue', STQ),
    ]
    with inject.scheduled_world(extra):
        _, exc = S.run(body)
    if exc is not None:
        res['outcome'] = ['harness-error', repr(exc)]
    res.update({'events': [], 'verdict': S.verdict or 'ok', 'blocked': S.blocked_at_end, 'leaked': S.leaked, 'steps': S.steps,
                'error': S.error, 'decisions': S.decisions, 'calls': jsonable(calls_log)})
    return res


def make_strategy(rng, cfg):
    kind = rng.choice(['random', 'random', 'pct', 'greedy-flip'])
    if kind == 'random':
        return kind, detsched.RandomStrategy(rng, timer_p=rng.choice([0.0, 0.05]) if cfg.get('timers_adversarial') else 0.0)
    if kind == 'pct':
        return kind, detsched.PCTStrategy(rng, depth=rng.choice([1, 2, 3, 5]), horizon=rng.choice([100, 400, 1500]))
    order = rng.choice([['caller', 'W', 'Ensemble', 'Server'], ['W', 'Server', 'Ensemble', 'caller'], ['Server', 'Ensemble', 'caller', 'W']])
    return kind, detsched.GreedyStrategy(order, rng, flip_p=rng.choice([0.05, 0.2]))


def main(argv):
    import json
    what, seed, n, outp = argv[0], int(argv[1]), int(argv[2]), argv[3]
    rest = argv[4:]
    corpus = json.load(open(rest[0])) if rest else []
    rng = random.Random(seed)
    out = []
    for c in corpus:
        r = run_stack(c['cfg'], detsched.ReplayStrategy([tuple(d) for d in c['decisions']]))
        r['cfg'], r['strategy'] = c['cfg'], 'corpus'
        out.append(r)
    for i in range(n):
        cfg = gen_cfg(rng, allow_init_fail=(what == 'lifecycle'))
        kind, st = make_strategy(rng, cfg)
        r = run_stack(cfg, st)
        r['cfg'], r['strategy'] = cfg, kind
        out.append(r)
    json.dump(out, open(outp, 'w'), default=lambda o: f'<{type(o).__name__}: {o!r:.60}>')


if __name__ == '__main__':
    import sys
    main(sys.argv[1:])


# ---- oracle helpers -----------------------------------------------------------------------------

def spec_b(tree, v, calls):
    """spec() refined with the batches that were actually formed: in a stage with batch_size > 0 a
    failing element fails exactly the members of its batch."""
    t = tree['t']
    if t == 'leaf':
        pre_fail = {int(a): b for a, b in tree['pre_fail'].items()}
        fail = {int(a): b for a, b in tree['fail'].items()}
        if isinstance(v, int) and v in pre_fail:
            return ('err', pre_fail[v])
        if tree['b'] > 0:
            for k, batch in calls:
                if k == tree['k'] and isinstance(batch, list) and v in batch:
                    bad = [e for e in batch if isinstance(e, int) and e in fail]
                    if bad:
                        return ('err', fail[bad[0]])
                    break
            return ('ok', leaf_fn(tree['k'], v))
        if isinstance(v, int) and v in fail:
            return ('err', fail[v])
        return ('ok', leaf_fn(tree['k'], v))
    if t == 'seq':
        cur = ('ok', v)
        for c in tree['c']:
            if cur[0] != 'ok':
                return cur
            cur = spec_b(c, cur[1], calls)
        return cur
    if t == 'sw':
        if isinstance(v, int) and str(v) in tree.get('sw_fail', {}):
            return ('err', tree['sw_fail'][str(v)])
        return spec_b(tree['c'][switch_index(v, len(tree['c']))], v, calls)
    rs = [spec_b(c, v, calls) for c in tree['c']]
    if tree['ff']:
        if any(r[0] != 'ok' for r in rs):
            return ('ens', None)
        return ('ok', [r[1] for r in rs])
    if all(r[0] != 'ok' for r in rs):
        return ('ens', None)
    return ('ok', [r[1] if r[0] == 'ok' else ('E', r) for r in rs])


def check_results(r):
    """returns a list of (x, got, want) that are wrong (timeouts / rejections are not outcomes of the servlet)"""
    cfg = r['cfg']
    bad = []
    allcalls = [(k, b) for k, b in r['calls']]
    starts = [c.get('calls_from', 0) for c in r['cycles']] + [len(allcalls)]
    for ci, cyc in enumerate(r['cycles']):
        calls = allcalls[starts[ci]:starts[ci + 1]]
        for x, got in cyc['results'].items():
            if got in (['timeout'], ['rejected']):
                continue
            want = jsonable(spec_b(cfg['tree'], int(x), calls))
            if got != want:
                bad.append((int(x), got, want))
    return bad


def batches_wellformed(r):
    """C09-style checks on every batched call of the run"""
    def leaves(t):
        if t['t'] == 'leaf':
            yield t
        else:
            for c in t['c']:
                yield from leaves(c)
    bs = {l['k']: l for l in leaves(r['cfg']['tree'])}
    seen = {}
    for k, arg in r['calls']:
        leaf = bs[k]
        if leaf['b'] > 0:
            if not isinstance(arg, list) or not (1 <= len(arg) <= leaf['b']):
                return f'stage {k} (batch_size {leaf["b"]}) was called with {arg!r}'
            for e in arg:
                key = (k, json_key(e))
                if key in seen:
                    return f'stage {k}: element {e!r} appears in two calls'
                seen[key] = True
                if isinstance(e, int) and e in {int(a) for a in leaf['pre_fail']}:
                    return f'stage {k}: element {e!r} rejected by preprocess reached call'
        else:
            key = (k, json_key(arg))
            if key in seen:
                return f'stage {k}: element {arg!r} was processed twice'
            seen[key] = True
    return None


def json_key(e):
    import json
    return json.dumps(e)
