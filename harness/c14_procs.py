"""Operation executor shared by the C14 harness (main process, a thread, a helper process) and its local reference."""
import pickle


class LocalValue:
    """direct stand-in for multiprocessing.managers.Value"""

    def __init__(self, v):
        self.value = v


def enc(v):
    from mpservice.multiprocessing.server_process import BaseProxy
    if isinstance(v, BaseProxy):
        return ['proxy']
    if v is None:
        return ['none']
    if isinstance(v, bool):
        return ['bool', v]
    if isinstance(v, int):
        return ['int', v]
    if isinstance(v, tuple):
        return ['pairs', [list(v)]] if len(v) == 2 and all(isinstance(x, int) for x in v) else ['other', repr(v)]
    if isinstance(v, dict):
        return ['pairs', [[k, x] for k, x in v.items()]]
    if isinstance(v, list):
        return ['list', list(v)] if all(isinstance(x, int) and not isinstance(x, bool) for x in v) else ['other', repr(v)]
    return ['other', repr(v)]


def do_op(t, op):
    """apply op (a list: name, args...) to target t (a proxy or a local object); returns (encoded answer, raw result)"""
    from mpservice.multiprocessing.remote_exception import get_remote_traceback, is_remote_exception
    k, a = op[0], op[1:]
    try:
        if k == 'append': r = t.append(a[0])
        elif k == 'extend': r = t.extend(a[0])
        elif k == 'insert': r = t.insert(a[0], a[1])
        elif k == 'pop': r = t.pop()
        elif k == 'popat': r = t.pop(a[0])
        elif k == 'remove': r = t.remove(a[0])
        elif k == 'index': r = t.index(a[0])
        elif k == 'count': r = t.count(a[0])
        elif k in ('len', 'dlen'): r = len(t)
        elif k in ('get', 'dget'): r = t[a[0]]
        elif k in ('set', 'dset'):
            t[a[0]] = a[1]
            r = None
        elif k in ('del', 'ddel'):
            del t[a[0]]
            r = None
        elif k in ('contains', 'dcontains'): r = a[0] in t
        elif k == 'reverse': r = t.reverse()
        elif k == 'sort': r = t.sort()
        elif k == 'add': r = t + a[0]
        elif k == 'mul': r = t * a[0]
        elif k == 'dpop': r = t.pop(a[0])
        elif k == 'dpopd': r = t.pop(a[0], a[1])
        elif k == 'dgetd': r = t.get(a[0], a[1])
        elif k == 'dgetn': r = t.get(a[0])
        elif k == 'dclear': r = t.clear()
        elif k == 'dsetdefault': r = t.setdefault(a[0], a[1])
        elif k == 'dupdate': r = t.update([tuple(p) for p in a[0]])
        elif k == 'dpopitem': r = t.popitem()
        elif k == 'dcopy': r = t.copy()
        elif k == 'vget': r = t.value
        elif k == 'vset':
            t.value = a[0]
            r = None
        elif k == 'fmake': r = t.make_list(a[0])
        elif k == 'fpeek': r = t.peek(a[0])
        elif k == 'fnmade': r = t.nmade()
        elif k == 'ffail': r = t.fail(a[0])
        else:
            raise RuntimeError('unknown op ' + k)
    except Exception as e:  # noqa
        args = [x if isinstance(x, (int, str)) else repr(x) for x in e.args]
        info = {'remote': bool(is_remote_exception(e))}
        if info['remote']:
            tb = get_remote_traceback(e) or ''
            info['tb_has_raise_site'] = ('Traceback' in tb) and (type(e).__name__ in tb)
        return ['exc', type(e).__name__, args, info], None
    return enc(r), r


def helper_main(cmd_q, ack_q):
    """a second client process: holds its own proxies (received as pickles) and issues calls on request"""
    slots = {}
    ack_q.put('ready')
    while True:
        cmd = cmd_q.get()
        if cmd[0] == 'exit':
            ack_q.put('bye')
            return
        if cmd[0] == 'adopt':
            slots[cmd[1]] = pickle.loads(bytes.fromhex(cmd[2]))
            ack_q.put('ok')
        elif cmd[0] == 'call':
            ans, raw = do_op(slots[cmd[1]], cmd[2])
            if ans == ['proxy']:
                slots[cmd[3]] = raw
            ack_q.put(ans)
        elif cmd[0] == 'give':
            ack_q.put(pickle.dumps(slots[cmd[1]]).hex())
