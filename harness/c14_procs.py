"""Operation executor shared by the C14 harness (main process, a thread, a helper process) and its local reference."""
import pickle


class LocalValue:
    """direct stand-in for multiprocessing.managers.Value"""

    def __init__(self, v):
        self.value = v


def enc(v):
    from mpservice.multiprocessing.server_process import BaseProxy
    if isinstance(v, BaseProxy):
        return ['proxy']
    if v is None:
        return ['none']
    if isinstance(v, bool):
        return ['bool', v]
    if isinstance(v, int):
        return ['int', v]
    if isinstance(v, tuple):
        return ['pairs', [list(v)]] if len(v) == 2 and all(isinstance(x, int) for x in v) else ['other', repr(v)]
    if isinstance(v, dict):
        return ['pairs', [[k, x] for k, x in v.items()]]
    if isinstance(v, list):
        return ['list', list(v)] if all(isinstance(x, int) and not isinstance(x, bool) for x in v) else ['other', repr(v)]
    return ['other', repr(v)]


def raw_op(t, op):
    """apply op (a list: name, args...) to target t (a proxy or a local object); returns the result or raises"""
    k, a = op[0], op[1:]
    if k == 'append': return t.append(a[0])
    if k == 'extend': return t.extend(a[0])
    if k == 'insert': return t.insert(a[0], a[1])
    if k == 'pop': return t.pop()
    if k == 'popat': return t.pop(a[0])
    if k == 'remove': return t.remove(a[0])
    if k == 'index': return t.index(a[0])
    if k == 'count': return t.count(a[0])
    if k in ('len', 'dlen'): return len(t)
    if k in ('get', 'dget'): return t[a[0]]
    if k in ('set', 'dset'):
        t[a[0]] = a[1]
        return None
    if k in ('del', 'ddel'):
        del t[a[0]]
        return None
    if k in ('contains', 'dcontains'): return a[0] in t
    if k == 'reverse': return t.reverse()
    if k == 'sort': return t.sort()
    if k == 'add': return t + a[0]
    if k == 'mul': return t * a[0]
    if k == 'imul':
        t0 = t
        t *= a[0]
        return None if t is t0 else ('rebound to', type(t).__name__)      # `x *= k` must leave the name bound to the same object
    if k == 'iadd':
        t0 = t
        t += a[0]
        return None if t is t0 else ('rebound to', type(t).__name__)
    if k == 'extself': return t.extend(t)               # the argument is (a proxy of) the very list being extended
    if k == 'iaddself':
        t0 = t
        t += t
        return None if t is t0 else ('rebound to', type(t).__name__)
    if k == 'iter': return [x for x in t]
    if k == 'diter': return [x for x in t]
    if k == 'dkeys': return list(t.keys())
    if k == 'dvalues': return list(t.values())
    if k == 'ditems': return dict(t.items())
    if k == 'nset':
        setattr(t, f'a{a[0]}', a[1])
        return None
    if k == 'nget': return getattr(t, f'a{a[0]}')
    if k == 'ndel':
        delattr(t, f'a{a[0]}')
        return None
    if k == 'dpop': return t.pop(a[0])
    if k == 'dpopd': return t.pop(a[0], a[1])
    if k == 'dgetd': return t.get(a[0], a[1])
    if k == 'dgetn': return t.get(a[0])
    if k == 'dclear': return t.clear()
    if k == 'dsetdefault': return t.setdefault(a[0], a[1])
    if k == 'dupdate': return t.update([tuple(p) for p in a[0]])
    if k == 'dpopitem': return t.popitem()
    if k == 'dcopy': return t.copy()
    if k == 'vget': return t.value
    if k == 'vset':
        t.value = a[0]
        return None
    if k == 'fmake': return t.make_list(a[0])
    if k == 'fpeek': return t.peek(a[0])
    if k == 'fnmade': return t.nmade()
    if k == 'ffail': return t.fail(a[0])
    if k == 'via': return t.via(a[0], a[1])          # the hosted object applies a[1] through the proxy it holds under a[0]
    if k == 'call': return getattr(t, a[0])(*a[1:])
    raise RuntimeError('unknown op ' + k)


def do_op(t, op):
    """returns (encoded answer, raw result)"""
    from mpservice.multiprocessing.remote_exception import get_remote_traceback, is_remote_exception
    try:
        r = raw_op(t, op)
    except Exception as e:  # noqa
        args = [x if isinstance(x, (int, str)) else repr(x) for x in e.args]
        info = {'remote': bool(is_remote_exception(e))}
        if info['remote']:
            tb = get_remote_traceback(e) or ''
            info['tb_has_raise_site'] = ('Traceback' in tb) and (type(e).__name__ in tb)
        return ['exc', type(e).__name__, args, info], None
    return enc(r), r


def helper_main(cmd_q, ack_q):
    """a second client process: holds its own proxies (received as pickles) and issues calls on request"""
    slots = {}
    ack_q.put('ready')
    while True:
        cmd = cmd_q.get()
        if cmd[0] == 'exit':
            ack_q.put('bye')
            return
        if cmd[0] == 'adopt':
            slots[cmd[1]] = pickle.loads(bytes.fromhex(cmd[2]))
            ack_q.put('ok')
        elif cmd[0] == 'call':
            ans, raw = do_op(slots[cmd[1]], cmd[2])
            if ans == ['proxy']:
                slots[cmd[3]] = raw
            ack_q.put(ans)
        elif cmd[0] == 'give':
            ack_q.put(pickle.dumps(slots[cmd[1]]).hex())
