"""Virtual synchronisation primitives driven by detsched.Sched.

Each class mirrors the API subset of its stdlib counterpart that mpservice uses. Semantics follow
CPython: Condition.notify wakes waiters in FIFO order, waits are not spurious, a notified waiter
must re-acquire the lock (and competes with newcomers), Future is the stdlib class re-executed
over these primitives (see make_futures_module).
"""
from __future__ import annotations

import collections
import inspect
import queue as _rq
import types

from . import detsched


def S() -> detsched.Sched:
    s = detsched.CURRENT
    if s is None:
        raise RuntimeError('virtual primitive used outside a scheduled run')
    return s


_counter = [0]


def _name(prefix, name):
    if name:
        return name
    _counter[0] += 1
    return f'{prefix}{_counter[0]}'


class VLock:
    _reentrant = False

    def __init__(self, name=None):
        self.name = _name('lock', name)
        self.owner = None
        self.count = 0

    def acquire(self, blocking=True, timeout=-1):
        s = S()
        s.yield_point('lock.acquire')
        me = s.me()
        if self._reentrant and self.owner is me:
            self.count += 1
            return True
        if self.owner is None:
            self.owner, self.count = me, 1
            return True
        if not blocking:
            return False
        ok = s.block_until(lambda: self.owner is None, None if timeout is None or timeout < 0 else timeout,
                           what=f'acquire({self.name})')
        if ok:
            self.owner, self.count = me, 1
        return ok

    def release(self):
        s = S()
        s.yield_point('lock.release')
        if self.owner is None:
            raise RuntimeError('release unlocked lock')
        if self._reentrant and self.owner is not s.me():
            raise RuntimeError('cannot release un-acquired lock')
        self.count -= 1
        if self.count == 0:
            self.owner = None
            # a thread can be preempted right after it has released a lock, before its next statement (a value read under the
            # lock and re-read after it may have changed by then)
            s.yield_point('lock.released')

    def locked(self):
        return self.owner is not None

    __enter__ = acquire

    def __exit__(self, *a):
        self.release()

    # used by VCondition
    def _release_save(self):
        st = (self.owner, self.count)
        self.owner, self.count = None, 0
        return st

    def _acquire_restore(self, st):
        s = S()
        s.block_until(lambda: self.owner is None, None, what=f'reacquire({self.name})')
        self.owner, self.count = st

    def _is_owned(self):
        return self.owner is S().me()


class VRLock(VLock):
    _reentrant = True


class _Waiter:
    """identity-compared wake-up token (a list would compare by value)"""
    __slots__ = ('flag',)

    def __init__(self):
        self.flag = False


class VCondition:
    def __init__(self, lock=None, name=None):
        self.name = _name('cond', name)
        self._lock = lock if lock is not None else VRLock()
        self.acquire = self._lock.acquire
        self.release = self._lock.release
        self._waiters = collections.deque()

    def __enter__(self):
        return self._lock.__enter__()

    def __exit__(self, *a):
        return self._lock.__exit__(*a)

    def wait(self, timeout=None):
        s = S()
        if not self._lock._is_owned():
            raise RuntimeError('cannot wait on un-acquired lock')
        s.yield_point('cond.wait')
        w = _Waiter()
        self._waiters.append(w)
        st = self._lock._release_save()
        try:
            ok = s.block_until(lambda: w.flag, timeout, what=f'wait({self.name})')
            if not ok:
                try:
                    self._waiters.remove(w)
                except ValueError:
                    pass
                ok = w.flag
            return ok
        finally:
            if not s.aborting:
                self._lock._acquire_restore(st)

    def wait_for(self, predicate, timeout=None):
        s = S()
        endtime = None
        waittime = timeout
        result = predicate()
        while not result:
            if waittime is not None:
                if endtime is None:
                    endtime = s.clock + waittime
                else:
                    waittime = endtime - s.clock
                    if waittime <= 0:
                        break
            self.wait(waittime)
            result = predicate()
        return result

    def notify(self, n=1):
        s = S()
        if not self._lock._is_owned():
            raise RuntimeError('cannot notify on un-acquired lock')
        s.yield_point('cond.notify')
        while self._waiters and n > 0:
            w = self._waiters.popleft()
            w.flag = True
            n -= 1

    def notify_all(self):
        self.notify(len(self._waiters) + 1)


class LCondition(VCondition):
    """VCondition that logs lock and wait/notify traffic (for conditions the models represent)."""
    logname = 'cond'

    def __enter__(self):
        r = self._lock.acquire()
        S().ev('lock_acq', self.logname)
        return r

    def __exit__(self, *a):
        s = S()
        s.yield_point('lock.release')
        st = self._lock
        st.count -= 1
        if st.count == 0:
            st.owner = None
        s.ev('lock_rel', self.logname)

    def wait(self, timeout=None):
        s = S()
        if not self._lock._is_owned():
            raise RuntimeError('cannot wait on un-acquired lock')
        s.yield_point('cond.wait')
        w = _Waiter()
        self._waiters.append(w)
        st = self._lock._release_save()
        s.ev('cond_wait', self.logname)
        ok = False
        try:
            ok = s.block_until(lambda: w.flag, timeout, what=f'wait({self.name})')
            if not ok:
                try:
                    self._waiters.remove(w)
                except ValueError:
                    pass
                s.ev('cond_expire', self.logname)
            return ok
        finally:
            if not s.aborting:
                self._lock._acquire_restore(st)
                s.ev('cond_woke', self.logname, ok)

    def notify(self, n=1):
        s = S()
        if not self._lock._is_owned():
            raise RuntimeError('cannot notify on un-acquired lock')
        s.yield_point('cond.notify')
        k = 0
        while self._waiters and n > 0:
            w = self._waiters.popleft()
            w.flag = True
            n -= 1
            k += 1
        s.ev('cond_notify', self.logname, k)


class LoggingDict(dict):
    """dict whose len / item assignment / pop are yield points and are logged (the server's ledger)."""
    logname = 'ledger'

    def raw_len(self):
        return dict.__len__(self)

    def __len__(self):
        s = detsched.CURRENT
        if s is None or not s.managed() or s.atomic:
            return dict.__len__(self)
        s.yield_point('dict.len')
        n = dict.__len__(self)
        s.ev('ledger_len', self.logname, n)
        return n

    def __setitem__(self, k, v):
        s = detsched.CURRENT
        if s is None or not s.managed():
            return dict.__setitem__(self, k, v)
        s.yield_point('dict.set')
        dict.__setitem__(self, k, v)
        s.ev('ledger_set', self.logname, k)

    def get(self, k, default=None):
        s = detsched.CURRENT
        if s is None or not s.managed():
            return dict.get(self, k, default)
        s.yield_point('dict.get')
        found = dict.__contains__(self, k)
        s.ev('ledger_get', self.logname, (k, found))
        return dict.get(self, k, default)

    def pop(self, k, *default):
        s = detsched.CURRENT
        if s is None or not s.managed():
            return dict.pop(self, k, *default)
        s.yield_point('dict.pop')
        found = dict.__contains__(self, k)
        s.ev('ledger_pop', self.logname, (k, found))
        return dict.pop(self, k, *default)


class VEvent:
    def __init__(self, name=None):
        self.name = _name('event', name)
        self._flag = False

    def is_set(self):
        s = S()
        s.yield_point('event.is_set')
        s.ev('evt_isset', self.name, self._flag)
        return self._flag

    def set(self):
        s = S()
        s.yield_point('event.set')
        self._flag = True
        s.ev('evt_set', self.name)

    def clear(self):
        s = S()
        s.yield_point('event.clear')
        self._flag = False
        s.ev('evt_clear', self.name)

    def wait(self, timeout=None):
        s = S()
        s.yield_point('event.wait')
        ok = s.block_until(lambda: self._flag, timeout, what=f'event.wait({self.name})')
        return ok


class VSemaphore:
    def __init__(self, value=1, name=None):
        self.name = _name('sem', name)
        self._value = value

    def acquire(self, blocking=True, timeout=None):
        s = S()
        s.yield_point('sem.acquire')
        if self._value > 0:
            self._value -= 1
            return True
        if not blocking:
            return False
        ok = s.block_until(lambda: self._value > 0, timeout, what=f'sem({self.name})')
        if ok:
            self._value -= 1
        return ok

    def release(self, n=1):
        s = S()
        s.yield_point('sem.release')
        self._value += n

    __enter__ = acquire

    def __exit__(self, *a):
        self.release()


class VQueue:
    """queue.Queue / queue.SimpleQueue with atomic operations (each is atomic under its mutex in
    the stdlib). maxsize <= 0: unbounded. Logs q_put / q_get at the linearization point."""

    def __init__(self, maxsize=0, name=None):
        self.name = _name('queue', name)
        self.maxsize = maxsize
        self.queue = collections.deque()
        self.log = True

    def _full(self):
        return 0 < self.maxsize <= len(self.queue)

    def put(self, item, block=True, timeout=None):
        s = S()
        s.yield_point('q.put')
        if self._full():
            if not block:
                raise _rq.Full
            if not s.block_until(lambda: not self._full(), timeout, what=f'put({self.name})'):
                raise _rq.Full
        self.queue.append(item)
        if self.log:
            s.ev('q_put', self.name, item)

    def get(self, block=True, timeout=None):
        s = S()
        s.yield_point('q.get')
        if not self.queue:
            if not block:
                raise _rq.Empty
            if not s.block_until(lambda: len(self.queue) > 0, timeout, what=f'get({self.name})'):
                if self.log:
                    s.ev('q_get_timeout', self.name, None)
                if getattr(s, 'extra_yields', False):
                    s.yield_point('q.get.expired')    # a real thread can be pre-empted right after the wait expired
                raise _rq.Empty
        item = self.queue.popleft()
        if self.log:
            s.ev('q_get', self.name, item)
        return item

    def put_nowait(self, item):
        return self.put(item, False)

    def get_nowait(self):
        return self.get(False)

    def qsize(self):
        S().yield_point('q.qsize')
        return len(self.queue)

    def empty(self):
        s = S()
        s.yield_point('q.empty')
        r = len(self.queue) == 0
        if self.log:
            s.ev('q_isempty', self.name, r)
        return r

    def full(self):
        s = S()
        s.yield_point('q.full')
        r = self._full()
        if self.log:
            s.ev('q_isfull', self.name, r)
        return r

    def close(self):
        pass


class VSimpleQueue(VQueue):
    def __init__(self, name=None):
        super().__init__(0, name)


class LoggingDeque(collections.deque):
    """collections.deque whose append/popleft are logged (linearization points of SingleLane).
    In the code as it is the operations happen under SingleLane's mutex; they are nevertheless yield points, so that a
    change that moves one of them out of the critical section is explored like any other unprotected access."""
    vname = None

    def append(self, x):
        s = detsched.CURRENT
        if s is not None and s.managed():
            s.yield_point('dq.append')
        super().append(x)
        if s is not None and s.managed():
            s.ev('dq_append', self.vname or '', x)

    def popleft(self):
        s = detsched.CURRENT
        if s is not None and s.managed():
            s.yield_point('dq.popleft')
        x = super().popleft()
        if s is not None and s.managed():
            s.ev('dq_popleft', self.vname or '', x)
        return x

    def __len__(self):
        return super().__len__()


class VClockNS:
    """stands in for the `time` module (and bare perf_counter/sleep/monotonic names)."""

    @staticmethod
    def perf_counter():
        return S().clock

    monotonic = perf_counter
    time = perf_counter

    @staticmethod
    def sleep(t):
        s = S()
        s.yield_point('sleep')
        s.block_until(lambda: False, t, what='sleep')


def make_threading_ns():
    import threading as _rt
    ns = types.SimpleNamespace()
    for k in dir(_rt):
        if not k.startswith('__'):
            setattr(ns, k, getattr(_rt, k))
    ns.Lock = VLock
    ns.RLock = VRLock
    ns.Condition = VCondition
    ns.Event = VEvent
    ns.Semaphore = VSemaphore
    ns.BoundedSemaphore = VSemaphore
    return ns


def make_queue_ns():
    ns = types.SimpleNamespace()
    ns.Queue = VQueue
    ns.SimpleQueue = VSimpleQueue
    ns.Empty = _rq.Empty
    ns.Full = _rq.Full
    return ns


_futures_mod = None


def make_futures_module():
    """concurrent.futures._base re-executed with `threading` and `time` bound to the virtual ones:
    Future, wait, as_completed with stdlib logic over virtual Condition/Event/Lock.
    Exception classes are the real ones, so `except concurrent.futures.X` in mpservice still matches."""
    global _futures_mod
    if _futures_mod is not None:
        return _futures_mod
    import concurrent.futures._base as real
    src = inspect.getsource(real)
    mod = types.ModuleType('verif_vfutures_base')
    mod.__dict__['__name__'] = 'verif_vfutures_base'
    exec(compile(src, real.__file__, 'exec'), mod.__dict__)
    mod.threading = make_threading_ns()
    mod.time = VClockNS
    for k in ('Error', 'CancelledError', 'TimeoutError', 'InvalidStateError', 'BrokenExecutor'):
        setattr(mod, k, getattr(real, k))

    class _Atomic:
        def __enter__(self):
            S().atomic += 1

        def __exit__(self, *a):
            S().atomic -= 1

    atomic = _Atomic()
    _DONE = ('CANCELLED', 'CANCELLED_AND_NOTIFIED', 'FINISHED')

    class LFuture(mod.Future):
        """stdlib Future logic; every method is one atomic step preceded by a yield point, logged
        at its linearization point. vid identifies the future in the log (set by the pool)."""
        vid = None

        def set_running_or_notify_cancel(self):
            S().yield_point('fut.set_running')
            with atomic:
                r = super().set_running_or_notify_cancel()
                S().ev('fut_running', self.vid, r)
            return r

        def set_result(self, result):
            S().yield_point('fut.set_result')
            with atomic:
                try:
                    super().set_result(result)
                except BaseException:
                    S().ev('fut_set_failed', self.vid, result)
                    raise
                S().ev('fut_done', self.vid, result)

        def set_exception(self, exception):
            S().yield_point('fut.set_exception')
            with atomic:
                try:
                    super().set_exception(exception)
                except BaseException:
                    S().ev('fut_set_failed', self.vid, exception)
                    raise
                S().ev('fut_done', self.vid, exception)

        def cancel(self):
            S().yield_point('fut.cancel')
            with atomic:
                r = super().cancel()
                S().ev('fut_cancel', self.vid, r)
            return r

        def _wait_done(self, timeout):
            s = S()
            s.yield_point('fut.wait')
            return s.block_until(lambda: self._state in _DONE, timeout, what=f'future({self.vid})')

        # A thread that has once observed this future done reads a state that can no longer change: its later
        # result() / exception() calls are thread-local reads (no yield point, no event). This keeps the logged
        # history independent of how many times the code looks at a finished future.
        def _seen(self):
            import threading as _t
            return _t.get_ident() in self.__dict__.setdefault('_seen_done', set())

        def _mark_seen(self, ok):
            import threading as _t
            if ok:
                self.__dict__.setdefault('_seen_done', set()).add(_t.get_ident())

        def result(self, timeout=None):
            if self._seen():
                return super().result(0)
            ok = self._wait_done(timeout)
            with atomic:
                S().ev('fut_wait', self.vid, ok)
                self._mark_seen(ok)
                return super().result(0)

        def exception(self, timeout=None):
            if self._seen():
                return super().exception(0)
            ok = self._wait_done(timeout)
            with atomic:
                S().ev('fut_wait', self.vid, ok)
                self._mark_seen(ok)
                return super().exception(0)

        def cancelled(self):
            S().yield_point('fut.cancelled')
            with atomic:
                r = super().cancelled()
                S().ev('fut_cancelled', self.vid, r)
            return r

        def done(self):
            S().yield_point('fut.done')
            with atomic:
                return super().done()

        def running(self):
            S().yield_point('fut.running')
            with atomic:
                return super().running()

        def add_done_callback(self, fn):
            S().yield_point('fut.add_done_callback')
            with atomic:
                return super().add_done_callback(fn)

    mod.Future = LFuture
    _futures_mod = mod
    return mod


def make_concurrent_ns():
    """object usable as the `concurrent` global of an mpservice module: concurrent.futures.Future etc."""
    import concurrent.futures as real
    fm = make_futures_module()
    fut = types.SimpleNamespace()
    for k in dir(real):
        if not k.startswith('__'):
            try:
                setattr(fut, k, getattr(real, k))
            except Exception:
                pass
    import concurrent.futures._base as rbase
    for k in ('Error', 'CancelledError', 'TimeoutError', 'InvalidStateError', 'BrokenExecutor',
              'FIRST_COMPLETED', 'FIRST_EXCEPTION', 'ALL_COMPLETED'):
        setattr(fut, k, getattr(rbase, k))
    fut.Future = fm.Future
    fut.wait = fm.wait
    fut.as_completed = fm.as_completed
    fut.ThreadPoolExecutor = VThreadPool
    return types.SimpleNamespace(futures=fut)


class VThreadPool:
    """ThreadPoolExecutor stand-in: max_workers managed worker threads (started eagerly), FIFO work
    queue (logged as pool_put/pool_take), virtual futures. The pool itself is stdlib and trusted;
    what matters for mpservice is max_workers, submission order and the future protocol."""

    def __init__(self, max_workers=None, thread_name_prefix='', initializer=None, initargs=(), **kw):
        import threading as _rt
        self.max_workers = max_workers or 4
        self._work = VSimpleQueue(name='poolq')
        self._shutdown = False
        self._initializer = initializer
        self._initargs = initargs
        self._threads = []
        for j in range(self.max_workers):
            t = _rt.Thread(target=self._worker, name=f'pool-{j}')
            self._threads.append(t)
            t.start()

    def submit(self, fn, /, *args, loud_exception=True, **kwargs):
        if self._shutdown:
            raise RuntimeError('cannot schedule new futures after shutdown')
        f = make_futures_module().Future()
        f.vid = args[0] if args else None
        self._work.put(PoolItem(f, fn, args, kwargs))
        return f

    def _worker(self):
        if self._initializer is not None:
            self._initializer(*self._initargs)
        while True:
            item = self._work.get()
            if item is None:
                self._work.put(None)
                return
            f, fn, args, kwargs = item.f, item.fn, item.args, item.kwargs
            if not f.set_running_or_notify_cancel():
                continue
            try:
                r = fn(*args, **kwargs)
            except BaseException as e:  # noqa
                if isinstance(e, detsched.Abort):
                    raise
                f.set_exception(e)
            else:
                f.set_result(r)

    def shutdown(self, wait=True, *, cancel_futures=False):
        self._shutdown = True
        self._work.put(None)
        if wait:
            for t in self._threads:
                t.join()

    def __enter__(self):
        return self

    def __exit__(self, *a):
        self.shutdown(wait=True)
        return False


class PoolItem:
    def __init__(self, f, fn, args, kwargs):
        self.f, self.fn, self.args, self.kwargs = f, fn, args, kwargs
        self.vid = f.vid
