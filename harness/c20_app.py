"""A small "application" for the C20 check, run in its own interpreter: it starts one child through mpservice's Process, joins
it, checks its result and ends at once, keeping the process object in a module-level variable (as a script does). The
parent's handler is slow, so records are still in the pipe when join() returns.
usage: c20_app.py <outfile> <daemon 0|1> <n records>"""
import logging
import sys
import time

from mpservice.multiprocessing import Process


class SlowFile(logging.Handler):
    def __init__(self, path):
        super().__init__()
        self.f = open(path, 'w')

    def emit(self, record):
        time.sleep(0.002)
        self.f.write(record.getMessage() + '\n')
        self.f.flush()


def child(n):
    lg = logging.getLogger('app')
    for i in range(n):
        lg.warning('rec %d', i)
    return n


P = None      # kept at module level: the process object is still referenced when the interpreter shuts down


def main():
    global P
    out, daemon, n = sys.argv[1], bool(int(sys.argv[2])), int(sys.argv[3])
    logging.getLogger().addHandler(SlowFile(out))
    P = Process(target=child, args=(n,), daemon=daemon)
    P.start()
    P.join()
    assert P.result() == n and P.exitcode == 0


if __name__ == '__main__':
    main()
