"""Client-side executor for the C13/C14 histories: runs in the main harness process (process 0) and in helper
child processes, holding proxies in slots addressed by tag."""
import os
import pickle
import traceback

from mpservice.multiprocessing.server_process import MemoryBlock, ServerProcess, managed_dict, managed_list  # noqa: F401


class Factory:
    """hosted class whose methods return managed values (live proxies to values hosted in the server)"""

    def __init__(self):
        self.made = []

    def make_list(self, items):
        z = list(items)
        self.made.append(z)
        return managed_list(z)

    def make_dict(self, items):
        z = dict(items)
        self.made.append(z)
        return managed_dict(z)

    def nmade(self):
        return len(self.made)

    def peek(self, i):
        return self.made[i]

    def fail(self, code):
        raise KeyError(code)

    def again(self, i):
        # a second proxy to a value that is already hosted
        return managed_list(self.made[i])

    def adopt(self, name, obj):
        # `obj` arrives as a proxy (or, for the local reference, as the object itself)
        if not hasattr(self, 'held'):
            self.held = {}
        self.held[name] = obj

    def via(self, name, op):
        # call through the proxy this hosted object holds: a proxy used inside the server process
        from harness.c14_procs import raw_op
        r = raw_op(self.held[name], op)
        return list(r) if isinstance(r, list) else r


class WList(list):
    """a list that can be referred to weakly"""


class Maker:
    """hosted class for the C13 histories: hands out managed() lists and refers to them only weakly, so that the proxies
    are the only things keeping a made value (and whatever it contains) alive"""

    def __init__(self):
        self.made = []

    def make_list(self, items):
        import weakref
        z = WList(items)
        self.made.append(weakref.ref(z))
        return managed_list(z)

    def again(self, i):
        # a second proxy to a value that is already hosted
        z = self.made[i]()
        if z is None:
            raise LookupError(i)
        return managed_list(z)

    def nmade(self):
        return len(self.made)

    def fail_with(self, x):
        # a hosted method that raises while it holds a proxy it was given as an argument
        raise ValueError('fail_with')


class Factory2:
    """registered under the same typeid 'Factory' on another manager class, with a different set of methods"""

    def __init__(self):
        self.n = 0

    def bump(self, k):
        self.n += k
        return self.n

    def only_here(self):
        return 'factory2'


class ServerProcess2(ServerProcess):
    pass


try:
    ServerProcess.register('Factory', Factory)
    ServerProcess.register('Maker', Maker)
    ServerProcess2.register('Factory2', Factory2)
    ServerProcess2.unregister('Factory')
    ServerProcess2.register('Factory', Factory2)
except ValueError:
    pass


class Executor:
    def __init__(self, manager):
        self.m = manager
        self.slots = {}
        self.factory = None

    def do(self, cmd):
        op = cmd[0]
        try:
            return ['ok', getattr(self, 'op_' + op)(*cmd[1:])]
        except BaseException as e:  # noqa
            return ['exc', type(e).__name__, repr(e)[:300], traceback.format_exc()[-600:]]

    def op_create(self, kind, tag):
        if kind == 'list':
            self.slots[tag] = self.m.list([tag])
        elif kind == 'dict':
            self.slots[tag] = self.m.dict()
        elif kind == 'mem':
            self.slots[tag] = self.m.MemoryBlock(64)
            return self.slots[tag].name
        elif kind == 'factory':
            self.slots[tag] = self.m.Maker()
        return None

    def op_create_managed(self, ftag, tag):
        # a hosted method returns managed(value): the answer is a live proxy to a value hosted in the server
        self.slots[tag] = self.slots[ftag].make_list([tag])

    def op_again(self, ftag, idx, tag):
        # the hosted method wraps a value that is already hosted: one more proxy to the same object
        self.slots[tag] = self.slots[ftag].again(idx)

    def op_pickle(self, tag):
        return pickle.dumps(self.slots[tag]).hex()

    def op_unpickle(self, data, tag):
        self.slots[tag] = pickle.loads(bytes.fromhex(data))

    def op_adopt(self, obj, tag):
        self.slots[tag] = obj

    def op_drop(self, tag):
        del self.slots[tag]

    def op_store(self, tag, ctag, key):
        c = self.slots[ctag]
        if key is None:
            c.append(self.slots[tag])
        else:
            c[key] = self.slots[tag]

    def op_remove(self, ctag, key, keep, newtag):
        c = self.slots[ctag]
        x = c.pop() if key is None else c.pop(key)
        if keep:
            self.slots[newtag] = x
        del x

    def op_fail_with(self, ftag, tag):
        try:
            self.slots[ftag].fail_with(self.slots[tag])
        except ValueError as e:
            if 'fail_with' in str(e):
                return 'raised'
            raise
        raise RuntimeError('the hosted method did not raise')

    def op_bad_pickle(self, tag, ctag):
        # the proxy travels in a message that cannot be pickled as a whole: the call fails in this process
        try:
            self.slots[ctag].append([self.slots[tag], lambda: 0])
        except Exception as e:  # noqa
            return type(e).__name__
        raise RuntimeError('the unpicklable message was accepted')

    def op_use(self, tag):
        p = self.slots[tag]
        if hasattr(p, 'buf'):
            return ['mem', p.size >= 64]
        if hasattr(p, 'nmade'):
            return ['nmade', p.nmade()]
        return ['len', len(p)]


def helper_main(manager, cmd_q, ack_q, initial):
    """target of a helper child process; `initial` = list of (tag, proxy) passed as process arguments"""
    global _KEEP
    ex = Executor(manager)
    obj = None
    for tag, obj in initial:
        ex.slots[tag] = obj
    initial.clear()               # the Process object keeps its args until exit: the slots must be the only holders
    del obj
    _KEEP = ex                    # still referenced when the process exits
    ack_q.put(['ok', 'ready'])
    while True:
        cmd = cmd_q.get()
        if cmd[0] == 'exit':
            ack_q.put(['ok', None])
            return
        if cmd[0] == 'hard_exit':
            ack_q.put(['ok', None])
            os._exit(0)
        ack_q.put(ex.do(cmd))


class CtorHolder:
    """a hosted class whose constructor hosts something itself (managed_list inside the server, under create's mutex)"""
    def __init__(self):
        from mpservice.multiprocessing.server_process import managed_list
        self.items = managed_list([1, 2])

    def get(self):
        return self.items


ServerProcess.register('CtorHolder', CtorHolder)

