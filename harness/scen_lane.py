"""Scheduled scenarios for mpservice._queues.SingleLane itself: one writer thread and one reader thread run scripts of
put / get (blocking, non-blocking, timed) and full() / empty() calls on the real class, whose mutex, conditions and deque
are the logging virtual primitives. Model: coq/Model/Lane.v. Used by C01 (FIFO, exactly once), C08 (bound), C05 (no lost
wake-up)."""
from __future__ import annotations

import random

from . import detsched, inject, vprims
from .events import OPS

LOPS = {'lock_acq': 20, 'lock_rel': 21, 'dq_len': 22, 'cond_wait': 23, 'cond_expire': 24, 'cond_woke': 25,
        'cond_notify': 26, 'sl_read': 40}


def gen_cfg(rng: random.Random):
    maxsize = rng.choice([0, 1, 1, 2, 2, 3])
    n = rng.choice([1, 2, 3, 4, 6])

    def kind():
        r = rng.random()
        if r < 0.6:
            return True, False        # blocking, no timeout
        if r < 0.8:
            return True, True         # blocking with a timeout
        return False, False           # non-blocking

    ps, cs = [], []
    for i in range(n):
        b, t = kind()
        ps.append(['put', 10 + i, b, t])
        if rng.random() < 0.2:
            ps.append([rng.choice(['full', 'empty'] if maxsize else ['empty'])])
    m = n + rng.choice([-1, 0, 0, 0, 1])
    for i in range(max(m, 0)):
        b, t = kind()
        cs.append(['get', b, t])
        if rng.random() < 0.2:
            cs.append([rng.choice(['full', 'empty'] if maxsize else ['empty'])])
    return {'maxsize': maxsize, 'ps': ps, 'cs': cs}


def run_lane(cfg, strategy, max_steps=3000):
    from mpservice import _queues
    S = detsched.Sched(strategy, max_steps=max_steps)
    res = {'outcome': None}
    outs = {'P': [], 'C': []}
    stats = {'max_len': 0}
    reading = set()
    holder = {}

    conds = []

    class LC(vprims.LCondition):
        pass

    def make_cond(lock=None):
        c = LC(lock)
        c.logname = 'ne' if not conds else 'nf'       # SingleLane.__init__ creates _not_empty first
        conds.append(c)
        return c

    vthreading = vprims.make_threading_ns()
    vthreading.Condition = make_cond
    vthreading.Lock = vprims.VLock

    class LDeque(vprims.LoggingDeque):
        def __len__(self):
            s = detsched.CURRENT
            if s is None or not s.managed() or s.me() in reading:
                return super().__len__()
            s.yield_point('dq.len')
            n = super().__len__()
            s.ev('dq_len', '', n)
            return n

        def raw_len(self):
            return super().__len__()

    orig_full, orig_empty = _queues.SingleLane.full, _queues.SingleLane.empty

    def logged_read(orig):
        def read(self):
            s = detsched.CURRENT
            if s is None or not s.managed():
                return orig(self)
            s.yield_point('sl.read')
            me = s.me()
            reading.add(me)
            try:
                r = orig(self)
            finally:
                reading.discard(me)
            s.ev('sl_read', '', int(bool(r)))
            return r
        return read

    def body():
        import threading
        lane = _queues.SingleLane(cfg['maxsize'])
        holder['lane'] = lane

        def run_script(who, script):
            for op in script:
                try:
                    if op[0] == 'put':
                        lane.put(op[1], op[2], 5.0 if op[3] else None)
                        outs[who].append(['ok', op[1]])
                    elif op[0] == 'get':
                        outs[who].append(['ok', lane.get(op[1], 5.0 if op[2] else None)])
                    elif op[0] == 'full':
                        outs[who].append(['bool', bool(lane.full())])
                    else:
                        outs[who].append(['bool', bool(lane.empty())])
                except detsched.Abort:
                    raise
                except (_queues.Full, _queues.Empty):
                    outs[who].append(['exc'])
                except BaseException as e:  # noqa
                    outs[who].append(['err', repr(e)[:80]])

        tp = threading.Thread(target=run_script, args=('P', cfg['ps']), name='lane-P')
        tc = threading.Thread(target=run_script, args=('C', cfg['cs']), name='lane-C')
        tp.start()
        tc.start()
        tp.join()
        tc.join()
        res['outcome'] = ['finished']

    def observe(S_):
        lane = holder.get('lane')
        if lane is not None:
            n = lane._queue.raw_len() if hasattr(lane._queue, 'raw_len') else len(lane._queue)
            if n > stats['max_len']:
                stats['max_len'] = n

    S.observers.append(observe)
    extra = [(_queues, 'threading', vthreading), (_queues, 'deque', LDeque),
             (_queues.SingleLane, 'full', logged_read(orig_full)), (_queues.SingleLane, 'empty', logged_read(orig_empty))]
    with inject.scheduled_world(extra):
        _, exc = S.run(body)
    if exc is not None:
        res['outcome'] = ['harness-error', repr(exc)]
    lane = holder.get('lane')
    left = list(lane._queue) if lane is not None else None
    res.update(project(S))
    res.update({'verdict': S.verdict or 'ok', 'blocked': S.blocked_at_end, 'leaked': S.leaked, 'steps': S.steps,
                'error': S.error, 'decisions': S.decisions, 'p_out': outs['P'], 'c_out': outs['C'], 'left': left,
                'max_len': stats['max_len']})
    return res


def project(S):
    events = []
    unknown = set()

    def tid(name):
        if name.startswith('lane-P'):
            return 1
        if name.startswith('lane-C'):
            return 2
        if name == 'main':
            return 0
        unknown.add(name)
        return 99

    for (t, op, obj, val) in S.log:
        T = tid(t)
        if op in ('start', 'join'):
            continue
        v = val if isinstance(val, int) and not isinstance(val, bool) else (int(val) if isinstance(val, bool) else 0)
        if op in LOPS:
            events.append([T, LOPS[op], v, 1 if op == 'cond_expire' else 0])
        elif op in ('dq_append', 'dq_popleft'):
            events.append([T, OPS[op], v, 0])
        else:
            events.append([T, 98, 0, 0])
    return {'events': events, 'unknown_threads': sorted(unknown)}


def coq_case(r):
    from .core import cbool, clist, cnat, cz
    c = r['cfg']

    def pop(o):
        if o[0] == 'put':
            return f'Lane.Put {cz(o[1])} {cbool(o[2])} {cbool(o[3])}'
        return 'Lane.PFull' if o[0] == 'full' else 'Lane.PEmpty'

    def cop(o):
        if o[0] == 'get':
            return f'Lane.Get {cbool(o[1])} {cbool(o[2])}'
        return 'Lane.CFull' if o[0] == 'full' else 'Lane.CEmpty'

    def out(o):
        if o[0] == 'ok':
            return f'Lane.ROk {cz(o[1])}'
        if o[0] == 'exc':
            return 'Lane.RExc'
        if o[0] == 'bool':
            return f'Lane.RBool {cbool(o[1])}'
        return 'Lane.ROk (-7777)'        # an unexpected exception: never a model outcome
    verdict = {'ok': 0, 'deadlock': 1}.get(r['verdict'], 2)
    evs = clist(r['events'], lambda e: f'({cnat(e[0])}, {cnat(e[1])}, {cz(e[2])}, {cbool(e[3])})')
    return (f"({cnat(c['maxsize'])}, {clist(c['ps'], pop)}, {clist(c['cs'], cop)}, {evs}, "
            f"{clist(r['p_out'], out)}, {clist(r['c_out'], out)}, {cnat(verdict)})")


def make_strategy(rng):
    kind = rng.choice(['random', 'random', 'random-timers', 'pct', 'greedy', 'greedy-flip'])
    if kind == 'random':
        return kind, detsched.RandomStrategy(rng)
    if kind == 'random-timers':
        return kind, detsched.RandomStrategy(rng, timer_p=rng.choice([0.05, 0.2, 0.5]))
    if kind == 'pct':
        return kind, detsched.PCTStrategy(rng, depth=rng.choice([1, 2, 3, 5]), horizon=rng.choice([30, 80, 200]))
    order = rng.choice([['lane-P', 'lane-C'], ['lane-C', 'lane-P']])
    if kind == 'greedy':
        return kind, detsched.GreedyStrategy(order)
    return kind, detsched.GreedyStrategy(order, rng, flip_p=rng.choice([0.05, 0.2]))


def main(argv):
    import json
    what, seed, n, outp = argv[0], int(argv[1]), int(argv[2]), argv[3]
    rest = argv[4:]
    corpus = json.load(open(rest[0])) if rest else []
    rng = random.Random(seed)
    out = []
    for c in corpus:
        r = run_lane(c['cfg'], detsched.ReplayStrategy([tuple(d) for d in c['decisions']]))
        r['cfg'], r['strategy'] = c['cfg'], 'corpus'
        out.append(r)
    for i in range(n):
        cfg = gen_cfg(rng)
        kind, st = make_strategy(rng)
        r = run_lane(cfg, st)
        r['cfg'], r['strategy'] = cfg, kind
        out.append(r)
    json.dump(out, open(outp, 'w'))


if __name__ == '__main__':
    import sys
    main(sys.argv[1:])


# ------------------------------------------------------------------------------------------------
# oracle and Part shared by the checks whose theorems rest on Model/Lane.v (C01, C05, C08)
# ------------------------------------------------------------------------------------------------

def oracle(r):
    if r['verdict'] == 'replay-divergence':
        return None
    cfg = r['cfg']
    for who in ('p_out', 'c_out'):
        for o in r[who]:
            if o[0] == 'err':
                return (f'SingleLane operation raised {o[1]} (only queue.Full / queue.Empty are expected)', None)
    if cfg['maxsize'] and r['max_len'] > cfg['maxsize']:
        return (f'queue held {r["max_len"]} items with maxsize {cfg["maxsize"]}', None)
    put_ok = [o[1] for o in r['p_out'] if o[0] == 'ok']
    got_ok = [o[1] for o in r['c_out'] if o[0] == 'ok']
    p_done = len(r['p_out']) == len(cfg['ps'])
    c_done = len(r['c_out']) == len(cfg['cs'])
    if r['verdict'] == 'ok':
        if got_ok + list(r['left'] or []) != put_ok:
            return (f'got {got_ok} + left {r["left"]} differs from the accepted puts {put_ok}', None)
        return None
    if got_ok != put_ok[:len(got_ok)] and got_ok[:-1] != put_ok[:max(len(got_ok) - 1, 0)]:
        return (f'got {got_ok} is not a prefix of the accepted puts {put_ok}', None)
    if r['verdict'] == 'deadlock':
        left = list(r['left'] or [])
        for name, what in r['blocked']:
            if name.startswith('lane-P') and what.startswith('wait(') and (not cfg['maxsize'] or len(left) < cfg['maxsize']):
                return (f'lost wake-up: the writer sits in not_full.wait() for ever although the queue holds {len(left)} of '
                        f'{cfg["maxsize"]} items', None)
            if name.startswith('lane-C') and what.startswith('wait(') and left:
                return (f'lost wake-up: the reader sits in not_empty.wait() for ever although the queue holds {left}', None)
        if not p_done and not c_done:
            return (f'both users of the lane are blocked with work left: {r["blocked"]}; writer did {len(r["p_out"])} of '
                    f'{len(cfg["ps"])}, reader {len(r["c_out"])} of {len(cfg["cs"])}', None)
        return None
    return (f'run did not finish ({r["verdict"]}): blocked/waiting = {r["blocked"]}', None)


def nontrivial(r):
    sw = sum(1 for a, b in zip(r['events'], r['events'][1:]) if a[0] != b[0])
    return len(r['cfg']['ps']) >= 2 and len(r['cfg']['cs']) >= 2 and sw >= 3


def part(n_quick, n_thorough):
    from . import core
    return core.Part('lane', 'harness.scen_lane', 'lane', n_quick, n_thorough, 'DriverLane', coq_case, oracle, nontrivial,
                     shard=150,
                     describe=lambda r: {k: r.get(k) for k in ('cfg', 'strategy', 'verdict', 'p_out', 'c_out', 'left', 'max_len', 'blocked')})


LANE_TRUSTED = ('hand-written model coq/Model/Lane.v of SingleLane (one step per access to the mutex, the deque, the two '
                'conditions); trace validation: the real SingleLane runs under harness/detsched.py with its Lock, Conditions and '
                'deque replaced by logging virtual primitives through mpservice._queues\' module globals, a writer and a reader '
                'thread executing random scripts of put/get (blocking, timed, non-blocking) and full()/empty()')
