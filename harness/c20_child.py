"""Child-side targets for the C20 scenarios (imported by the spawned processes)."""
import logging
import sys
import time


class Boom(Exception):
    pass


def emit(name, levels, size, pause_every=0):
    lg = logging.getLogger(name)
    pad = 'x' * size
    for i, lv in enumerate(levels):
        lg.log(lv, '%d:%s', i, pad)
        if pause_every and i % pause_every == pause_every - 1:
            time.sleep(0.001)


def target(name, levels, size, end, pause_every=0):
    emit(name, levels, size, pause_every)
    if end == 'raise':
        raise Boom(name)
    if end == 'exit0':
        sys.exit(0)
    if end == 'exit3':
        sys.exit(3)
    if end == 'exitstr':
        sys.exit('bye')
    return len(levels)


def pool_task(name, levels, size, offset):
    lg = logging.getLogger(name)
    pad = 'x' * size
    for i, lv in enumerate(levels):
        lg.log(lv, '%d:%s', offset + i, pad)
    return len(levels)
