"""Deterministic scheduler for real Python threads (DESIGN.md section 3.1).

Only the thread holding the baton runs. Every operation on a virtual primitive (vprims.py) is a
yield point; blocking operations are `block_until(cond, timeout)` on a virtual clock. The scheduler
records the event log (written by the primitives and by the scenario's instrumented callbacks at
linearization points), detects deadlock (nothing enabled, no timer pending) and unwinds all threads.
"""
from __future__ import annotations

import random
import threading as _rt
import time as _rtime

_real_start = _rt.Thread.start
_real_join = _rt.Thread.join
_real_is_alive = _rt.Thread.is_alive

CURRENT: 'Sched | None' = None


class Abort(BaseException):
    """Raised inside managed threads to unwind them (deadlock, step bound, end of run)."""


class ReplayDivergence(Exception):
    pass


class MThread:
    __slots__ = ('name', 'sem', 'state', 'cond', 'deadline', 'woke_ok', 'thread', 'what', 'nops', 'prio', 'lazy')

    def __init__(self, name, thread=None):
        self.name = name
        self.sem = _rt.Semaphore(0)
        self.state = 'ready'      # ready | blocked | done
        self.cond = None
        self.deadline = None
        self.woke_ok = True
        self.thread = thread
        self.what = ''            # description of what it is blocked on
        self.nops = 0
        self.prio = 0
        self.lazy = False


# ---------------------------------------------------------------------------------------------
# strategies: choose(sched, enabled:list[(MThread, fire_timer:bool)], cur) -> index
# ---------------------------------------------------------------------------------------------

class RandomStrategy:
    name = 'random'

    def __init__(self, rng, switch_p=None, timer_p=0.0):
        self.rng = rng
        # probability of considering a switch at a yield point (lower => longer slices)
        self.switch_p = switch_p if switch_p is not None else rng.choice([1.0, 0.6, 0.3, 0.15])
        self.timer_p = timer_p

    def choose(self, S, cands, cur):
        rng = self.rng
        normal = [i for i, (t, fire) in enumerate(cands) if not fire]
        timers = [i for i, (t, fire) in enumerate(cands) if fire]
        if normal:
            if timers and self.timer_p and rng.random() < self.timer_p:
                return rng.choice(timers)
            for i in normal:
                if cands[i][0] is cur and rng.random() > self.switch_p:
                    return i
            return rng.choice(normal)
        # only timers left: earliest deadline first (ties random)
        dmin = min(cands[i][0].deadline for i in timers)
        return rng.choice([i for i in timers if cands[i][0].deadline == dmin])


class PCTStrategy:
    """priority-based: highest-priority enabled thread runs; d priority change points."""
    name = 'pct'

    def __init__(self, rng, depth=3, horizon=400):
        self.rng = rng
        self.change = sorted(rng.randrange(1, horizon) for _ in range(depth))
        self.low = 0

    def choose(self, S, cands, cur):
        normal = [i for i, (t, fire) in enumerate(cands) if not fire]
        if not normal:
            timers = list(range(len(cands)))
            dmin = min(cands[i][0].deadline for i in timers)
            return [i for i in timers if cands[i][0].deadline == dmin][0]
        for i in normal:
            if cands[i][0].prio == 0:
                cands[i][0].prio = self.rng.randrange(10, 1000)
        if self.change and S.steps >= self.change[0]:
            self.change.pop(0)
            if cur is not None:
                self.low -= 1
                cur.prio = self.low
        return max(normal, key=lambda i: cands[i][0].prio)


class GreedyStrategy:
    """run threads in a fixed preference order (by name prefix) until they block."""
    name = 'greedy'

    def __init__(self, order, rng=None, flip_p=0.0):
        self.order = order
        self.rng = rng
        self.flip_p = flip_p

    def rank(self, t):
        for k, p in enumerate(self.order):
            if t.name.startswith(p):
                return k
        return len(self.order)

    def choose(self, S, cands, cur):
        normal = [i for i, (t, fire) in enumerate(cands) if not fire]
        if not normal:
            dmin = min(t.deadline for t, _ in cands)
            return [i for i, (t, _) in enumerate(cands) if t.deadline == dmin][0]
        if self.rng is not None and self.flip_p and self.rng.random() < self.flip_p:
            return self.rng.choice(normal)
        return min(normal, key=lambda i: self.rank(cands[i][0]))


class ReplayStrategy:
    """replays an explicit list of (thread name, fire_timer) decisions; afterwards falls back."""
    name = 'replay'

    def __init__(self, decisions, fallback=None):
        self.decisions = list(decisions)
        self.pos = 0
        self.fallback = fallback or RandomStrategy(random.Random(0), switch_p=1.0)

    def choose(self, S, cands, cur):
        if self.pos < len(self.decisions):
            name, fire = self.decisions[self.pos]
            self.pos += 1
            for i, (t, f) in enumerate(cands):
                if t.name == name and bool(f) == bool(fire):
                    return i
            raise ReplayDivergence(f'decision {self.pos - 1}: {name} (timer={fire}) not enabled; '
                                   f'enabled={[(t.name, f) for t, f in cands]}')
        return self.fallback.choose(S, cands, cur)


# ---------------------------------------------------------------------------------------------

class Sched:
    def __init__(self, strategy, max_steps=20000, record=True, timers_adversarial=False):
        self.strategy = strategy
        self.max_steps = max_steps
        self.threads: list[MThread] = []
        self.by_ident = {}
        self.cur: MThread | None = None
        self.clock = 0.0
        self.log = []                 # (thread, op, obj, val)
        self.decisions = []           # (thread name, fire_timer)
        self.steps = 0
        self.aborting = False
        self.verdict = None           # None | 'deadlock' | 'step-bound' | 'replay-divergence'
        self.blocked_at_end = []
        self.names = {}
        self.record = record
        self.timers_adversarial = timers_adversarial
        # extra pre-emption points (after an expired timed wait, at Thread.is_alive) for scenarios that opt in
        self.extra_yields = False
        # with timers_adversarial off: timed waits whose description starts with this prefix may still expire while
        # other threads can run (e.g. 'get(' - timed queue reads only)
        self.adversarial_what = None
        self.observers = []           # callables run at every yield point (oracle sampling)
        self.quiescent_observers = []  # callables run when only timers can make progress
        self.atomic = 0               # >0: inside an atomic section of a virtual primitive (no switching)
        self.keep_log = True          # False: do not retain events (the log keeps every logged object alive)
        self.error = None

    # -- identity ------------------------------------------------------------------------------
    def me(self) -> MThread:
        return self.by_ident.get(_rt.get_ident())

    def managed(self) -> bool:
        return _rt.get_ident() in self.by_ident

    def fresh_name(self, base):
        n = self.names.get(base, 0)
        self.names[base] = n + 1
        return base if n == 0 else f'{base}#{n}'

    # -- log -----------------------------------------------------------------------------------
    def ev(self, op, obj='', val=None):
        if not self.keep_log:
            return
        t = self.me()
        self.log.append((t.name if t else '?', op, obj, val))

    # -- core ----------------------------------------------------------------------------------
    def _candidates(self):
        cands = []
        for t in self.threads:
            if t.state == 'ready':
                cands.append((t, False))
            elif t.state == 'blocked':
                if t.cond():
                    cands.append((t, False))
                elif t.deadline is not None:
                    cands.append((t, True))
        return cands

    def _switch(self):
        """Called by the thread holding the baton (at a yield point, when it blocks, or when it
        is done); picks who runs next and hands the baton over."""
        me = self.me()
        if self.aborting:
            return self._abort_handover(me)
        self.steps += 1
        if self.steps > self.max_steps:
            self._begin_abort('step-bound')
            return self._abort_handover(me)
        cands = self._candidates()
        if not self.timers_adversarial:
            aw = self.adversarial_what
            normal = [c for c in cands if not c[1] or (aw and (c[0].what or '').startswith(aw))]
            if not any(not c[1] for c in normal):
                normal = []
            if normal:
                cands = normal
        else:
            eager = [c for c in cands if not (c[1] and c[0].lazy)]
            if eager:
                cands = eager
        if not cands:
            self._begin_abort('deadlock')
            return self._abort_handover(me)
        if self.quiescent_observers and all(c[1] for c in cands):
            # nothing can run any more until a timer fires: every pending notification has been delivered
            for ob in self.quiescent_observers:
                ob(self)
        for ob in self.observers:
            ob(self)
        try:
            i = self.strategy.choose(self, cands, me if me.state == 'ready' else None)
        except ReplayDivergence as e:
            self.error = str(e)
            self._begin_abort('replay-divergence')
            return self._abort_handover(me)
        nxt, fire = cands[i]
        if self.record:
            self.decisions.append((nxt.name, bool(fire)))
        if nxt.state == 'blocked':
            if fire:
                self.clock = max(self.clock, nxt.deadline)
                nxt.woke_ok = False
            else:
                nxt.woke_ok = True
            nxt.state = 'ready'
            nxt.cond = None
            nxt.deadline = None
        self.cur = nxt
        if nxt is me:
            return
        nxt.sem.release()
        if me.state == 'done':
            return
        me.sem.acquire()
        if self.aborting:
            me.state = 'ready'
            me.cond = None
            raise Abort()

    def _begin_abort(self, verdict):
        if self.verdict is None:
            self.verdict = verdict
            self.blocked_at_end = sorted((t.name, t.what) for t in self.threads if t.state == 'blocked')
        self.aborting = True

    def _abort_handover(self, me):
        if me.state != 'done':
            me.state = 'ready'
            me.cond = None
            raise Abort()
        # a finished non-main thread: give the baton to main, which drives the unwinding
        main = self.threads[0]
        self.cur = main
        main.sem.release()

    def yield_point(self, what=''):
        me = self.me()
        if me is None:
            return
        if self.aborting:
            raise Abort()
        if self.atomic:
            return
        me.nops += 1
        self._switch()

    def block_until(self, cond, timeout=None, what='', lazy=False):
        """Returns True when cond() holds, False when the (virtual) timeout expired."""
        me = self.me()
        if me is None:
            raise RuntimeError('block_until from an unmanaged thread')
        if self.aborting:
            raise Abort()
        if cond():
            return True
        if timeout is not None and timeout <= 0:
            return False
        if self.atomic:
            raise RuntimeError('blocking inside an atomic section: ' + what)
        me.state = 'blocked'
        me.cond = cond
        me.what = what
        me.deadline = None if timeout is None else self.clock + timeout
        me.lazy = lazy
        self._switch()
        me.lazy = False
        me.what = ''
        return me.woke_ok

    # -- thread management ---------------------------------------------------------------------
    def register_main(self, name='main'):
        t = MThread(name, _rt.current_thread())
        self.threads.append(t)
        self.by_ident[_rt.get_ident()] = t
        self.cur = t
        return t

    def thread_start(self, th: _rt.Thread):
        base = th.name
        if base.startswith('Thread-') and base[7:8].isdigit():
            base = 'Thread-anon'        # default names carry a process-global counter: not replayable
        name = self.fresh_name(base)
        mt = MThread(name, th)
        orig_run = th.run
        S = self

        def run():
            S.by_ident[_rt.get_ident()] = mt
            mt.sem.acquire()      # wait for the baton
            try:
                if S.aborting:
                    raise Abort()
                orig_run()
            except Abort:
                pass
            finally:
                mt.state = 'done'
                try:
                    S._switch()
                except Abort:
                    pass

        th.run = run
        th._verif_mt = mt
        self.threads.append(mt)
        _real_start(th)
        self.ev('start', name, 0)
        self.yield_point('thread_start')

    def thread_join(self, th, timeout=None):
        mt = th._verif_mt
        self.yield_point('join')
        ok = self.block_until(lambda: mt.state == 'done', timeout, what=f'join({mt.name})')
        if ok:
            _real_join(th, 10)
            self.ev('join', mt.name, 0)
        else:
            self.ev('join', mt.name, 1)          # a timed join that expired
        return ok

    # -- running a scenario --------------------------------------------------------------------
    def run(self, body):
        """Run body() on the calling thread as managed thread 'main'.
        Returns (result, exception raised by body or None)."""
        global CURRENT
        assert CURRENT is None
        CURRENT = self
        me = self.register_main()
        res = exc = None
        self.leaked = []
        try:
            try:
                res = body()
            except Abort:
                pass
            except BaseException as e:  # noqa
                exc = e
            if not self.aborting:
                self.leaked = [t.name for t in self.threads if t.state != 'done' and t is not me]
                try:
                    self.block_until(lambda: all(t.state == 'done' for t in self.threads if t is not me),
                                     what='end-of-run')
                except Abort:
                    pass
            # unwinding after deadlock / step bound: wake the others one at a time
            while self.aborting:
                others = [t for t in self.threads if t is not me and t.state != 'done']
                if not others:
                    break
                t = others[0]
                t.state = 'ready'
                t.cond = None
                self.cur = t
                t.sem.release()
                me.sem.acquire()
            me.state = 'done'
        finally:
            CURRENT = None
            for t in self.threads:
                if t.thread is not None and t.thread is not _rt.current_thread():
                    _real_join(t.thread, 5)
            self.by_ident.pop(_rt.get_ident(), None)
        return res, exc


# ---------------------------------------------------------------------------------------------
# global patch of threading.Thread.start/join/is_alive (dispatch on "managed?")
# ---------------------------------------------------------------------------------------------

def _start(self):
    S = CURRENT
    if S is not None and S.managed() and not getattr(self, '_verif_unmanaged', False):
        return S.thread_start(self)
    return _real_start(self)


def _join(self, timeout=None):
    S = CURRENT
    if S is not None and hasattr(self, '_verif_mt') and S.managed():
        S.thread_join(self, timeout)
        return None
    return _real_join(self, timeout)


def _is_alive(self):
    S = CURRENT
    if S is not None and hasattr(self, '_verif_mt') and S.managed():
        if S.extra_yields:
            S.yield_point('is_alive')      # a liveness test is a check-then-act point: let the others run first
        return self._verif_mt.state != 'done'
    return _real_is_alive(self)


def install_thread_patch():
    _rt.Thread.start = _start
    _rt.Thread.join = _join
    _rt.Thread.is_alive = _is_alive


def uninstall_thread_patch():
    _rt.Thread.start = _real_start
    _rt.Thread.join = _real_join
    _rt.Thread.is_alive = _real_is_alive
