"""Scheduled scenario for the start handshake / stop protocol of a ThreadServlet with real Workers. Used by C11."""
from __future__ import annotations

import random

from . import detsched, inject, vprims
from .events import OPS, V_END

LOPS = {'qin_put': 100, 'qin_get': 101, 'qout_put': 102, 'qout_get': 103}


class InitErr(Exception):
    pass


def gen_cfg(rng):
    n = rng.choice([1, 2, 3, 4])
    return {'nworkers': n, 'init_fails': rng.choice([None, None] + list(range(n))), 'residual': rng.choice([0, 0, 1, 3, 6])}


def run_life(cfg, strategy, max_steps=20000):
    import logging

    from mpservice.mpserver import _servlet, _worker
    for m in (_servlet, _worker):
        m.logger.setLevel(logging.ERROR)
    S = detsched.Sched(strategy, max_steps=max_steps)
    res = {'outcome': None, 'start_error': None, 'live_after_failed_start': None, 'live_after_stop': None}
    fails = cfg['init_fails']

    class STQ(vprims.VSimpleQueue):
        _names = None

        def __init__(self):
            super().__init__(name='stq')
            self._rlock = vprims.VRLock()

    def body():
        class W(_worker.Worker):
            def __init__(self, **kw):
                super().__init__(**kw)
                if fails is not None and self.worker_index == fails:
                    raise InitErr(fails)

            def call(self, x):
                S.yield_point('call')
                return x

        servlet = _servlet.ThreadServlet(W, num_threads=cfg['nworkers'], worker_name='W-thread')
        q_in, q_out = STQ(), STQ()
        q_in.name, q_out.name = 'qin', 'qout'
        try:
            servlet.start(q_in, q_out)
        except detsched.Abort:
            raise
        except BaseException as e:  # noqa
            res['start_error'] = type(e).__name__
            res['live_after_failed_start'] = sorted(t.name for t in S.threads if t.state != 'done' and t.name != 'main')
            res['outcome'] = ['start-raised']
            return
        S.ev('marker', 'started', -1)
        for k in range(cfg['residual'], 0, -1):
            q_in.put((k, k))
        servlet.stop()
        S.ev('marker', 'stopped', -2)
        res['live_after_stop'] = sorted(t.name for t in S.threads if t.state != 'done' and t.name != 'main')
        res['outcome'] = ['stopped']

    extra = [(_servlet, 'sleep', vprims.VClockNS.sleep), (_servlet, '_SimpleThreadQueue', STQ),
             (_worker, 'threading', vprims.make_threading_ns()), (_worker, 'queue', vprims.make_queue_ns()),
             (_worker, 'perf_counter', vprims.VClockNS.perf_counter), (_worker, '_SimpleThreadQueue', STQ)]
    with inject.scheduled_world(extra):
        _, exc = S.run(body)
    if exc is not None:
        res['outcome'] = ['harness-error', repr(exc)]
    res.update(project(S))
    res.update({'verdict': S.verdict or 'ok', 'blocked': S.blocked_at_end, 'leaked': S.leaked, 'steps': S.steps,
                'error': S.error, 'decisions': S.decisions})
    return res


def project(S):
    events = []
    unknown = set()
    handshaken = set()

    def widx(name):
        return int(name.split('-')[2].split('#')[0])

    def tid(name):
        if name == 'main':
            return 0
        if name.startswith('W-thread-'):
            return 10 + widx(name)
        unknown.add(name)
        return 99

    for (t, op, obj, val) in S.log:
        T = tid(t)
        if op == 'start':
            if str(obj).startswith('W-thread-'):
                events.append([T, OPS['start'], widx(str(obj))])
        elif op == 'marker':
            events.append([T, OPS['start'], val])
        elif op == 'join':
            if str(obj).startswith('W-thread-'):
                events.append([T, OPS['join'], widx(str(obj))])
        elif obj == 'qin' and op in ('q_put', 'q_get'):
            v = V_END if val is None else val[1]
            events.append([T, LOPS['qin_put' if op == 'q_put' else 'qin_get'], v])
        elif obj == 'qout' and op == 'q_put':
            if T >= 10 and T not in handshaken:
                handshaken.add(T)
                events.append([T, LOPS['qout_put'], 0 if val is None else 1])
            else:
                events.append([T, LOPS['qout_put'], V_END if val is None else val[1] + 1000])
        elif obj == 'qout' and op == 'q_get':
            events.append([T, LOPS['qout_get'], 0 if val is None else 1])
        else:
            continue       # the worker's private uid queue and other internals
    return {'events': events, 'unknown_threads': sorted(unknown)}


def coq_case(r):
    from .core import clist, cnat, copt, cz
    c = r['cfg']
    evs = clist(r['events'], lambda e: f'({cnat(e[0])}, {cnat(e[1])}, {cz(e[2])})')
    verdict = 0 if r['verdict'] == 'ok' else 1
    return f"({cnat(c['nworkers'])}, {copt(c['init_fails'], cnat)}, {cnat(c['residual'])}, {evs}, {cnat(verdict)})"


def make_strategy(rng):
    kind = rng.choice(['random', 'random', 'pct', 'greedy-flip'])
    if kind == 'random':
        return kind, detsched.RandomStrategy(rng)
    if kind == 'pct':
        return kind, detsched.PCTStrategy(rng, depth=rng.choice([1, 2, 3, 5]), horizon=rng.choice([30, 100, 300]))
    order = rng.choice([['main', 'W-thread'], ['W-thread', 'main'], ['W-thread-1', 'main', 'W-thread-0']])
    return kind, detsched.GreedyStrategy(order, rng, flip_p=rng.choice([0.05, 0.2]))


def main(argv):
    import json
    what, seed, n, outp = argv[0], int(argv[1]), int(argv[2]), argv[3]
    rest = argv[4:]
    corpus = json.load(open(rest[0])) if rest else []
    rng = random.Random(seed)
    out = []
    for c in corpus:
        r = run_life(c['cfg'], detsched.ReplayStrategy([tuple(d) for d in c['decisions']]))
        r['cfg'], r['strategy'] = c['cfg'], 'corpus'
        out.append(r)
    for i in range(n):
        cfg = gen_cfg(rng)
        kind, st = make_strategy(rng)
        r = run_life(cfg, st)
        r['cfg'], r['strategy'] = cfg, kind
        out.append(r)
    json.dump(out, open(outp, 'w'))


if __name__ == '__main__':
    import sys
    main(sys.argv[1:])
