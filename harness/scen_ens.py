"""Scheduled scenarios for EnsembleServlet over member stand-ins (one worker each). Used by C02/C04."""
from __future__ import annotations

import random

from . import detsched, inject, vprims

EOPS = {'eqin_put': 80, 'eqin_get': 81, 'cat_set': 82, 'cat_get': 83, 'cat_pop': 84, 'min_put': 85, 'min_get': 86,
        'mout_put': 87, 'mout_empty': 88, 'mout_get': 89, 'eout_put': 90}


class MemErr(Exception):
    def __init__(self, code):
        super().__init__(code)
        self.code = code


def mem_value(j, x):
    return x * 10 + j


def gen_cfg(rng, unique=None):
    nm = rng.choice([2, 2, 3])
    nreq = rng.choice([1, 2, 3, 4, 6])
    unique = rng.random() < 0.5 if unique is None else unique
    if unique:
        uids = list(range(1, nreq + 1))
    else:
        uids = [rng.choice([1, 1, 2, 3]) for _ in range(nreq)]
    reqs = [[uids[i], i + 1] for i in range(nreq)]
    fail = {}
    for j in range(nm):
        for i in range(nreq):
            if rng.random() < 0.2:
                fail[f'{j},{i + 1}'] = rng.randrange(50, 54)
    return {'nmem': nm, 'fail_fast': rng.random() < 0.6, 'reqs': reqs, 'fail': fail}


class Member:
    input_queue_type = 'thread'
    output_queue_type = 'thread'

    def __init__(self, j, cfg, S):
        self.j, self.cfg, self.S = j, cfg, S
        self.thread = None

    def start(self, q_in, q_out):
        import threading
        self.q_in, self.q_out = q_in, q_out
        q_in.name, q_out.name = f'min{self.j}', f'mout{self.j}'
        self.thread = threading.Thread(target=self._work, name=f'mem-{self.j}')
        self.thread.start()

    def _work(self):
        while True:
            z = self.q_in.get()
            if z is None:
                self.q_out.put(None)
                return
            uid, x = z
            code = self.cfg['fail'].get(f'{self.j},{x}')
            if code is not None:
                from mpservice.multiprocessing.remote_exception import RemoteException
                try:
                    raise MemErr(code)
                except MemErr as e:
                    y = RemoteException(e)       # what a real worker puts on its output queue
            else:
                y = mem_value(self.j, x)
            self.q_out.put((uid, y))

    def stop(self):
        self.q_in.put(None)
        self.thread.join()

    def _debug_info(self):
        return {}


def run_ens(cfg, strategy, max_steps=20000):
    import logging

    from mpservice.mpserver import _servlet
    from mpservice.multiprocessing.remote_exception import EnsembleError, RemoteException
    _servlet.logger.setLevel(logging.ERROR)
    S = detsched.Sched(strategy, max_steps=max_steps)
    outs = []
    res = {'outcome': None}

    class STQ(vprims.VSimpleQueue):
        def __init__(self):
            super().__init__(name='stq')
            self._rlock = vprims.VRLock()

    orig_reset = _servlet.EnsembleServlet._reset

    def reset(self):
        orig_reset(self)
        d = vprims.LoggingDict()
        d.logname = 'catalog'
        self._uid_to_results = d

    def body():
        import threading
        members = [Member(j, cfg, S) for j in range(cfg['nmem'])]
        ens = _servlet.EnsembleServlet(*members, fail_fast=cfg['fail_fast'])
        q_in, q_out = STQ(), STQ()
        q_in.name, q_out.name = 'eqin', 'eqout'
        ens.start(q_in, q_out)

        emitted = []
        orig_put = q_out.put

        def counting_put(item, *a, **k):
            orig_put(item, *a, **k)
            if item is not None:
                emitted.append(item[0])
        q_out.put = counting_put

        def upstream():
            # an id can be reused only once the request that carried it has been answered
            for i, (uid, x) in enumerate(cfg['reqs']):
                earlier = sum(1 for u, _ in cfg['reqs'][:i] if u == uid)
                S.block_until(lambda: emitted.count(uid) >= earlier, what=f'id-free({uid})')
                q_in.put((uid, x))

        def downstream():
            for _ in cfg['reqs']:
                uid, y = q_out.get()
                if isinstance(y, RemoteException):
                    y = y.exc
                if isinstance(y, EnsembleError):
                    outs.append([uid, 'E'])
                elif isinstance(y, list):
                    outs.append([uid, [(v.exc.code if isinstance(v, RemoteException) else (-1 if v is None else v)) for v in y],
                                 [isinstance(v, RemoteException) or v is None for v in y]])
                else:
                    outs.append([uid, '?', repr(y)[:60]])
        tu = threading.Thread(target=upstream, name='upstream')
        td = threading.Thread(target=downstream, name='downstream')
        tu.start()
        td.start()
        tu.join()
        td.join()
        ens.stop()
        res['outcome'] = ['finished']

    extra = [(_servlet, 'sleep', vprims.VClockNS.sleep), (_servlet, '_SimpleThreadQueue', STQ),
             (_servlet.EnsembleServlet, '_reset', reset)]
    with inject.scheduled_world(extra):
        _, exc = S.run(body)
    if exc is not None:
        res['outcome'] = ['harness-error', repr(exc)]
    res.update(project(S, cfg))
    res.update({'verdict': S.verdict or 'ok', 'blocked': S.blocked_at_end, 'leaked': S.leaked, 'steps': S.steps,
                'error': S.error, 'decisions': S.decisions, 'outs': outs})
    return res


def project(S, cfg):
    events = []
    unknown = set()

    def tid(name):
        if name == 'upstream':
            return 0
        if name.startswith('EnsembleServlet._enqueue'):
            return 1
        if name.startswith('EnsembleServlet._dequeue'):
            return 2
        if name.startswith('mem-'):
            return 10 + int(name.split('-')[1].split('#')[0])
        if name in ('main', 'downstream'):
            return 99
        unknown.add(name)
        return 98

    stopping = False
    for (t, op, obj, val) in S.log:
        T = tid(t)
        if T == 99 or op in ('start', 'join'):
            continue
        name = str(obj)
        if op in ('q_put', 'q_get') and val is None:
            stopping = True          # stop sentinels: lifecycle, not part of this model
            continue
        if stopping:
            continue
        if name == 'eqin':
            events.append([T, EOPS['eqin_put' if op == 'q_put' else 'eqin_get'], val[0]])
        elif name == 'eqout' and op == 'q_put':
            events.append([T, EOPS['eout_put'], val[0]])
        elif name.startswith('min'):
            j = int(name[3:])
            if op == 'q_put':
                events.append([T, EOPS['min_put'], val[0] * 100 + j])
            else:
                events.append([T, EOPS['min_get'], val[0]])
        elif name.startswith('mout'):
            j = int(name[4:])
            if op == 'q_put':
                events.append([T, EOPS['mout_put'], val[0]])
            elif op == 'q_get':
                events.append([T, EOPS['mout_get'], val[0]])
            elif op == 'q_isempty':
                events.append([T, EOPS['mout_empty'], j * 2 + int(bool(val))])
        elif name == 'catalog':
            if op == 'ledger_set':
                events.append([T, EOPS['cat_set'], val])
            elif op == 'ledger_get':
                events.append([T, EOPS['cat_get'], val[0] * 2 + int(val[1])])
            elif op == 'ledger_pop':
                events.append([T, EOPS['cat_pop'], val[0]])
        else:
            events.append([T, 97, 0])
    # the dequeue thread keeps polling after the last output: cut its idle tail
    last = max([i for i, e in enumerate(events) if e[1] != EOPS['mout_empty']], default=-1)
    events = events[:last + 1]
    return {'events': events, 'unknown_threads': sorted(unknown)}


def coq_case(r):
    from .core import cbool, clist, cnat, cz
    c = r['cfg']
    reqs = clist(c['reqs'], lambda q: f'({cnat(q[0])}, {cz(q[1])})')
    fail = clist(sorted(c['fail'].items()), lambda kv: f"({cnat(int(kv[0].split(',')[0]))}, {cz(int(kv[0].split(',')[1]))}, {cz(kv[1])})")
    evs = clist(r['events'], lambda e: f'({cnat(e[0])}, {cnat(e[1])}, {cz(e[2])})')

    def out(o):
        if o[1] == 'E':
            return f'({cnat(o[0])}, None)'
        vals = clist(list(zip(o[1], o[2])), lambda p: f'({cz(p[0])}, {cbool(p[1])})')
        return f'({cnat(o[0])}, Some {vals})'
    return f"({cnat(c['nmem'])}, {cbool(c['fail_fast'])}, {reqs}, {fail}, {evs}, {clist(r['outs'], out)})"


def make_strategy(rng):
    kind = rng.choice(['random', 'random', 'pct', 'greedy-flip'])
    if kind == 'random':
        return kind, detsched.RandomStrategy(rng)
    if kind == 'pct':
        return kind, detsched.PCTStrategy(rng, depth=rng.choice([1, 2, 3, 5]), horizon=rng.choice([50, 150, 400]))
    order = rng.choice([['upstream', 'Ensemble', 'mem-0', 'mem-1', 'downstream'], ['mem-1', 'mem-0', 'Ensemble', 'upstream'],
                        ['upstream', 'mem-0', 'Ensemble', 'downstream', 'mem-1', 'mem-2']])
    return kind, detsched.GreedyStrategy(order, rng, flip_p=rng.choice([0.05, 0.2]))


def main(argv):
    import json
    what, seed, n, outp = argv[0], int(argv[1]), int(argv[2]), argv[3]
    rest = argv[4:]
    unique = None
    if rest and rest[0] in ('unique', 'reuse'):
        unique = rest.pop(0) == 'unique'
    corpus = json.load(open(rest[0])) if rest else []
    rng = random.Random(seed)
    out = []
    for c in corpus:
        r = run_ens(c['cfg'], detsched.ReplayStrategy([tuple(d) for d in c['decisions']]))
        r['cfg'], r['strategy'] = c['cfg'], 'corpus'
        out.append(r)
    for i in range(n):
        cfg = gen_cfg(rng, unique)
        kind, st = make_strategy(rng)
        r = run_ens(cfg, st)
        r['cfg'], r['strategy'] = cfg, kind
        out.append(r)
    json.dump(out, open(outp, 'w'), default=lambda o: f'<{type(o).__name__}: {o!r:.60}>')


if __name__ == '__main__':
    import sys
    main(sys.argv[1:])
