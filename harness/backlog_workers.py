"""Worker for harness/scen_backlog.py (importable by spawned worker processes). A request is (id, duration in ms, fail code
or 0); the answer is id * 10 + 1."""
import time

from mpservice.mpserver import Worker


class StageErr(Exception):
    def __init__(self, code):
        super().__init__(code)
        self.code = code


class TwoArgErr(Exception):
    """pickles, but cannot be re-created from its args (a common pattern)"""
    def __init__(self, code, detail):
        super().__init__(f'{code}: {detail}')


class BW(Worker):
    def __init__(self, *, nst=0, **kw):
        super().__init__(**kw)
        self.num_stream_threads = nst        # > 0: call() runs in the worker's own thread pool (Worker.stream)

    def call(self, x):
        i, dur, fail = x[:3]
        pad = x[3] if len(x) > 3 else 0
        if dur:
            time.sleep(dur / 1000)
        if fail == 6:
            raise TwoArgErr(fail, 'cannot be rebuilt')
        if fail == 8:
            raise StopIteration(fail)            # like any other exception of the worker
        if fail == 9:
            raise TimeoutError(fail)             # the builtin one (a driver's timeout), not the server's
        if fail:
            raise StageErr(fail)
        return i * 10 + 1 if not pad else (i * 10 + 1, bytes(pad))      # pad: a result larger than an OS pipe buffer
