"""Real-process runs of the real Server over pipelines that contain ProcessServlet stages (real worker processes, real OS
pipes, real time; no scheduler). They cover what the scheduled thread-only scenarios cannot: outcomes and exceptions that
cross process boundaries (C02, C04) and leaving the server with work still in flight, including inputs / intermediate
results that do not fit an OS pipe buffer (C11). The oracle is the sequential meaning of the pipeline."""
from __future__ import annotations

import json
import os
import random
import sys
import threading
import time



def payload_key(v):
    """the small integer a request carries, whatever padding travels with it (same as in procstack_workers)"""
    if isinstance(v, tuple) and len(v) == 2 and isinstance(v[1], (bytes, bytearray)):
        return v[0]
    return v


EXIT_BOUND = 12.0      # seconds allowed for leaving the server, on top of the abandoned work itself
BIG = 200_000          # bytes: more than an OS pipe buffer (64 kB)


# ---- case generation ----------------------------------------------------------------------------------------------------

def gen_cfg(rng: random.Random, calls_only=False):
    """One case. The structural choices (stage kinds, batching, where a failure happens, payload size, workload) are drawn
    from small explicit sets so that every combination comes up; the rest (inputs, codes, worker counts) is random."""
    workload = 'calls' if calls_only else rng.choice(['calls', 'timeout_call', 'stream_abandon', 'stream_abandon'])
    kinds = rng.choice([['process'], ['process', 'process'], ['process', 'thread'], ['thread', 'process'],
                        ['process', 'process', 'process'], ['process', 'process', 'thread']])
    nst = len(kinds)
    payload = rng.choice(['small', 'big_in', 'big_mid', 'big_mid']) if workload != 'calls' else rng.choice(['small', 'small', 'big_in', 'big_mid'])
    if nst == 1 and payload == 'big_mid':
        payload = 'big_in'
    n = rng.choice([3, 5, 8]) if workload != 'timeout_call' else rng.choice([1, 3])
    xs = list(range(1, n + 1))
    # where a request fails (calls workloads): a stage index, and whether in preprocess or in call
    fail_stage = rng.choice([None] + list(range(nst)) + [0]) if workload == 'calls' else None
    fail_in_pre = rng.random() < 0.5
    stages = []
    cur = list(xs)                      # the value each request carries into the next stage (None once it has failed)
    for i, kind in enumerate(kinds):
        k = i + 1
        b = rng.choice([0, 1, 4, 4]) if i > 0 else rng.choice([0, 0, 1, 4])
        live = [v for v in cur if v is not None]
        pre_fail, fail = {}, {}
        if fail_stage == i and live:
            victims = rng.sample(live, k=min(len(live), rng.choice([1, 1, 2])))
            if fail_in_pre or b > 1:          # a failing call fails a whole batch: per-request failures in a batching stage go through preprocess
                pre_fail = {str(v): rng.randrange(40, 44) for v in victims}
            else:
                fail = {str(v): rng.randrange(30, 34) for v in victims}
        stages.append({'kind': kind, 'n': rng.choice([1, 1, 2]), 'b': b, 'fail': fail, 'pre_fail': pre_fail, 'k': k,
                       'dur': 0.0, 'blow': 0, 'shrink': False})
        cur = [None if (v is None or str(v) in pre_fail or str(v) in fail) else v * 10 + k for v in cur]
    if payload == 'big_mid':
        stages[0]['blow'] = BIG
        stages[-1]['shrink'] = True
    elif payload == 'big_in':
        stages[-1]['shrink'] = True
    if payload != 'small':
        for st in stages[:-1]:
            st['n'] = 1           # several workers + payloads larger than the pipe: known finding C11-N2 (corpus case)
    if workload in ('timeout_call', 'stream_abandon'):
        stages[0]['dur'] = rng.choice([0.3, 0.6])
    return {'stages': stages, 'xs': xs, 'in_pad': BIG if payload == 'big_in' else 0, 'workload': workload,
            'abandon_after': rng.choice([1, 2]), 'reenter': rng.random() < 0.7, 'capacity': rng.choice([4, 16, 64])}


def stage(kind, k, b=0, n=1, fail=None, pre_fail=None, dur=0.0, blow=0, shrink=False):
    return {'kind': kind, 'n': n, 'b': b, 'fail': fail or {}, 'pre_fail': pre_fail or {}, 'k': k, 'dur': dur, 'blow': blow,
            'shrink': shrink}


def core_cases(rng: random.Random, calls_only):
    """The structural combinations every run should see, in a seeded order (the quick tier takes a prefix):
    calls: a request failing in stage 1 (in preprocess / in call) or in a batching stage 2, x kinds of the two stages x
           batching of stage 2, x an optional third stage;
    exits: {timed-out call, abandoned stream} x kinds x {inputs, intermediate results} larger than a pipe buffer x batching."""
    out = []
    pairs = [('process', 'process'), ('process', 'thread'), ('thread', 'process')]
    if calls_only:
        for k1, k2 in pairs:
            for b2 in (0, 4):
                for where in ('pre', 'call'):
                    f = {'pre_fail': {'2': 41}} if where == 'pre' else {'fail': {'2': 30 if b2 else 31}}      # 30: raised `from` the real failure
                    out.append({'stages': [stage(k1, 1, **f), stage(k2, 2, b=b2)], 'xs': [1, 2, 3], 'in_pad': 0})
        for where in ('pre', 'call'):
            f = {'pre_fail': {'1': 42}} if where == 'pre' else {'fail': {'1': 32}}
            out.append({'stages': [stage('process', 1, **f), stage('process', 2, b=4), stage('process', 3)], 'xs': [1, 2, 3], 'in_pad': 0})
        for k1, k2 in pairs:
            out.append({'stages': [stage(k1, 1), stage(k2, 2, b=4, pre_fail={'21': 43})], 'xs': [1, 2, 3], 'in_pad': 0})
        for c in out:
            c.update(workload='calls', abandon_after=1, reenter=False, capacity=16)
    else:
        for wl in ('timeout_call', 'stream_abandon'):
            for k1, k2 in pairs:
                for payload in ('big_in', 'big_mid'):
                    for b1 in (0, 4):
                        st = [stage(k1, 1, b=b1, dur=0.4, blow=BIG if payload == 'big_mid' else 0), stage(k2, 2, shrink=True)]
                        out.append({'stages': st, 'xs': [1, 2, 3, 4, 5] if wl == 'stream_abandon' else [1, 2],
                                    'in_pad': BIG if payload == 'big_in' else 0, 'workload': wl})
            for b1 in (0, 4):
                out.append({'stages': [stage('process', 1, b=b1, dur=0.4, shrink=True)], 'xs': [1, 2, 3, 4, 5] if wl == 'stream_abandon' else [1, 2],
                            'in_pad': BIG, 'workload': wl})
        for c in out:
            c.update(abandon_after=1, reenter=rng.random() < 0.5, capacity=16)
    rng.shuffle(out)
    if calls_only:
        # error translation in a worker: the exception that leaves it is chained (`from`) to the real failure one level down
        out.insert(0, {'stages': [stage('process', 1, fail={'2': 30}), stage('thread', 2, b=4)], 'xs': [1, 2, 3], 'in_pad': 0,
                       'workload': 'calls', 'abandon_after': 1, 'reenter': False, 'capacity': 16})
    if True:
        # an input that cannot be pickled, to a first stage running in processes: its own request fails, nothing else
        # (and the server still exits with every worker process gone and can be entered again)
        out.insert(0, {'stages': [stage('process', 1), stage('process', 2, b=4)], 'xs': [1, 2, 3, 4], 'in_pad': 0, 'unsendable': [2],
                       'workload': 'calls', 'abandon_after': 1, 'reenter': True, 'capacity': 2})
    return out


def spec(cfg, x):
    """sequential meaning for input x: ['ok', value] | ['err', code, stage]"""
    v = x
    for st in cfg['stages']:
        if str(v) in st['pre_fail']:
            return ['err', st['pre_fail'][str(v)], st['k']]
        if str(v) in st['fail']:
            return ['err', st['fail'][str(v)], st['k']]
        v = v * 10 + st['k']
    return ['ok', v]


# ---- running one case ---------------------------------------------------------------------------------------------------

def build(cfg):
    from mpservice.mpserver import ProcessServlet, SequentialServlet, ThreadServlet

    from harness.procstack_workers import PW
    members = []
    for st in cfg['stages']:
        kw = dict(k=st['k'], b=st['b'], fail=st['fail'], pre_fail=st['pre_fail'], dur=st['dur'], blow=st['blow'], shrink=st['shrink'])
        if st['kind'] == 'process':
            members.append(ProcessServlet(PW, cpus=st["n"], **kw))
        else:
            members.append(ThreadServlet(PW, num_threads=st['n'], **kw))
    return members[0] if len(members) == 1 else SequentialServlet(*members)


def canon(y):
    """result -> ['ok', key, padding length] | ['err', code, details]"""
    import traceback

    from mpservice.multiprocessing.remote_exception import get_remote_traceback, is_remote_exception
    if isinstance(y, BaseException):
        try:
            text = ''.join(traceback.format_exception(type(y), y, y.__traceback__))
        except Exception:  # noqa
            text = ''
        remote = bool(is_remote_exception(y))
        if remote:
            text += get_remote_traceback(y)
        return ['err', getattr(y, 'code', None),
                {'cls': type(y).__name__, 'args': [a if isinstance(a, (int, str)) else repr(a)[:60] for a in y.args[:1]],
                 'remote': remote, 'site': ('in _one' in text) or ('in _pre' in text), 'deep': 'in _deep' in text}]
    if isinstance(y, tuple) and len(y) == 2 and isinstance(y[1], (bytes, bytearray)):
        return ['ok', y[0], len(y[1])]
    return ['ok', y, 0]


def run_case(cfg):
    import multiprocessing

    from mpservice.mpserver import Server
    from mpservice.mpserver import TimeoutError as ServerTimeoutError
    obs = {'results': {}, 'exit_secs': None, 'left_threads': None, 'left_procs': None, 'reenter': None, 'hang': None,
           'enter_error': None, 'exit_error': None}
    before = {t.ident for t in threading.enumerate()}
    pad = bytes(cfg['in_pad']) if cfg['in_pad'] else None

    def wrap(x):
        if x in cfg.get('unsendable', ()):
            return (x, threading.Lock())           # cannot be pickled
        return (x, pad) if pad is not None else x

    server = Server(build(cfg), capacity=cfg['capacity'])
    phase = {'name': 'enter', 't0': time.time()}
    done = threading.Event()

    def watchdog():
        # a phase that takes longer than its bound is recorded as a hang; the worker processes are then killed so that
        # whatever is blocked on them (pipe writes, joins) gets unblocked and the harness can go on to the next case
        while not done.wait(0.5):
            limit = {'enter': 60, 'work': 90, 'exit': EXIT_BOUND + 2.0 * len(cfg['xs']), 'reenter': 90}[phase['name']]
            if time.time() - phase['t0'] > limit and obs['hang'] is None:
                obs['hang'] = {'phase': phase['name'], 'after': round(time.time() - phase['t0'], 1),
                               'threads': sorted(t.name for t in threading.enumerate() if t.ident not in before),
                               'procs': sorted(p.name for p in multiprocessing.active_children())}
                for p in multiprocessing.active_children():
                    p.kill()
    wd = threading.Thread(target=watchdog, daemon=True, name='procstack-watchdog')
    wd.start()
    try:
        try:
            server.__enter__()
        except BaseException as e:  # noqa
            obs['enter_error'] = repr(e)[:200]
            return obs
        phase.update(name='work', t0=time.time())
        try:
            if cfg['workload'] == 'calls':
                def caller(x):
                    try:
                        obs['results'][str(x)] = canon(server.call(wrap(x), timeout=60, backpressure=False))
                    except ServerTimeoutError:
                        obs['results'][str(x)] = ['timeout']
                    except BaseException as e:  # noqa
                        obs['results'][str(x)] = canon(e)
                ts = [threading.Thread(target=caller, args=(x,), name=f'caller-{x}') for x in cfg['xs']]
                for t in ts:
                    t.start()
                for t in ts:
                    t.join()
            elif cfg['workload'] == 'timeout_call':
                for x in cfg['xs']:
                    try:
                        obs['results'][str(x)] = canon(server.call(wrap(x), timeout=0.1, backpressure=False))
                    except ServerTimeoutError:
                        obs['results'][str(x)] = ['timeout']
                    except BaseException as e:  # noqa
                        obs['results'][str(x)] = canon(e)
            else:
                it = server.stream((wrap(x) for x in cfg['xs']), return_x=True, return_exceptions=True)
                k = 0
                for x, y in it:
                    obs['results'][str(payload_key(x))] = canon(y)
                    k += 1
                    if k >= cfg['abandon_after']:
                        break
                it.close()
        finally:
            phase.update(name='exit', t0=time.time())
            try:
                server.__exit__(None, None, None)
            except BaseException as e:  # noqa
                obs['exit_error'] = repr(e)[:200]
            obs['exit_secs'] = round(time.time() - phase['t0'], 2)
        time.sleep(0.2)
        obs['left_threads'] = sorted(t.name for t in threading.enumerate()
                                     if t.ident not in before and t is not wd and not t.name.startswith('caller-'))
        obs['left_procs'] = sorted(p.name for p in multiprocessing.active_children())
        if cfg['reenter'] and obs['hang'] is None:
            phase.update(name='reenter', t0=time.time())
            try:
                with server:
                    x = cfg['xs'][0]
                    obs['reenter'] = canon(server.call(wrap(x), timeout=60, backpressure=False))
            except BaseException as e:  # noqa
                obs['reenter'] = canon(e)
    finally:
        done.set()
        for p in multiprocessing.active_children():
            p.kill()
    return obs


N2_KEY = 'C11-N2-first-worker-forwards-end-marker-while-peers-work'


# ---- oracle ---------------------------------------------------------------------------------------------------------------

def oracle(r):
    cfg, o = r['cfg'], r['obs']
    if o.get('crash'):
        return ('harness crashed: ' + o['crash'], None)
    if o['enter_error']:
        return (f'server did not start: {o["enter_error"]}', None)
    if o['hang']:
        h = o['hang']
        big = cfg['in_pad'] > 0 or any(s['blow'] for s in cfg['stages'])
        key = N2_KEY if (h['phase'] == 'exit' and big and any(s['n'] >= 2 for s in cfg['stages'][:-1])) else None
        return (f'{h["phase"]} did not finish within its bound ({h["after"]} s): threads {h["threads"]}, processes {h["procs"]}', key)
    if o['exit_error']:
        return (f'leaving the server raised {o["exit_error"]}', None)
    if o['left_threads'] or o['left_procs']:
        return (f'after leaving the server: threads {o["left_threads"]}, processes {o["left_procs"]} still alive', None)
    crossed = any(s['kind'] == 'process' for s in cfg['stages'])
    if cfg['workload'] == 'calls':
        for x in cfg['xs']:
            want, got = spec(cfg, x), o['results'].get(str(x))
            if got is None:
                return (f'request {x} got no outcome', None)
            if x in cfg.get('unsendable', ()):
                if got[0] != 'err' or got[2]['cls'] not in ('TypeError', 'PicklingError', 'AttributeError'):
                    return (f'request {x} (an input that cannot be pickled for the worker processes) received {got}, expected the pickling error', None)
                continue
            if want[0] == 'ok':
                if got[0] != 'ok' or got[1] != want[1]:
                    return (f'request {x} received {got[:2]}, sequential meaning gives {want}', None)
            else:
                if got[0] != 'err' or got[1] != want[1]:
                    return (f'request {x} received {got[:2]}, sequential meaning gives {want}', None)
                d = got[2]
                cls = (('FalsyPreErr' if want[1] % 4 == 1 else 'PreErr') if 40 <= want[1] < 50 else ('FalsyStageErr' if want[1] % 4 == 3 else 'StageErr'))
                if d['cls'] != cls or d['args'] != [want[1]]:
                    return (f'request {x}: exception {d["cls"]}{d["args"]} instead of {cls}[{want[1]}]', None)
                if 30 <= want[1] < 40 and want[1] % 4 == 2 and not d.get('deep'):
                    return (f'request {x}: the exception ({d["cls"]}({want[1]}), raised `from` the ValueError of the real failure site) '
                            f'does not carry the traceback of that site (`_deep`) any more', None)
                if not d['site']:
                    return (f'request {x}: the exception ({d["cls"]}({want[1]}) from stage {want[2]}) no longer carries the '
                            f'traceback of the failure site (remote text: {d["remote"]})', None)
    elif cfg['workload'] == 'stream_abandon':
        for x, got in o['results'].items():
            want = spec(cfg, int(x))
            if got[:2] != want[:2]:
                return (f'stream element {x} came back as {got[:2]}, sequential meaning gives {want}', None)
    if cfg['reenter']:
        want, got = spec(cfg, cfg['xs'][0]), o['reenter']
        if got is None or got[:2] != want[:2]:
            return (f'after re-entering the server, request {cfg["xs"][0]} received {got and got[:2]}, expected {want}', None)
    return None


def nontrivial(r):
    c = r['cfg']
    return len(c['stages']) >= 2 or c['workload'] != 'calls' or any(s['fail'] or s['pre_fail'] for s in c['stages'])


# ---- entry point ----------------------------------------------------------------------------------------------------------

def main(argv):
    what, seed, n, outp = argv[0], int(argv[1]), int(argv[2]), argv[3]
    corpus = json.load(open(argv[4])) if len(argv) > 4 else []
    rng = random.Random(seed)
    calls_only = what == 'ps-calls'
    core = core_cases(rng, calls_only)
    gen = core[:n] + [gen_cfg(rng, calls_only=calls_only) for _ in range(max(0, n - len(core)))]
    cases = [c['cfg'] for c in corpus] + gen
    import gc
    import logging
    gc.disable()      # collections only at safe points (CPython 3.12.1 thread-start / finalizer deadlock; see harness/props/c14.py)
    logging.getLogger('mpservice').setLevel(logging.CRITICAL)
    res = []
    t_all = time.time()
    for c in cases:
        gc.collect()
        try:
            obs = run_case(c)
        except BaseException as e:  # noqa
            obs = {'crash': repr(e)[:300]}
        res.append({'cfg': c, 'obs': obs, 'strategy': c['workload'], 'verdict': 'ok'})
    json.dump(res, open(outp, 'w'), default=str)
    sys.stdout.flush()
    os._exit(0)


if __name__ == '__main__':
    main(sys.argv[1:])


def part(n_quick, n_thorough, calls_only=False):
    from . import core
    return core.Part('procstack', 'harness.scen_procstack', 'ps-calls' if calls_only else 'ps', n_quick, n_thorough, None, None,
                     oracle, nontrivial,
                     key=lambda r: json.dumps(r['cfg'], sort_keys=True),
                     describe=lambda r: {'cfg': r['cfg'], 'observed': r['obs']},
                     corpus=core.VERIF / 'corpus' / ('none.json' if calls_only else 'procstack.json'))


PROC_TRUSTED = ('real-process runs (harness/scen_procstack.py): the real Server over pipelines with ProcessServlet stages, real OS '
                'pipes and real time; not schedulable, no Coq replay: outcomes are compared with the sequential meaning of the '
                'pipeline, exceptions with their class / args / failure-site traceback text, and leaving the server is timed '
                '(watchdog), followed by a census of threads and child processes and a re-entry')
