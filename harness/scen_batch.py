"""Scheduled scenario for a batching Worker (collector thread + batch consumer + SingleLane buffer) with
arrival patterns in virtual time and optional competing workers. Used by C09."""
from __future__ import annotations

import random

from . import detsched, inject, vprims
from .events import V_END

BOPS = {'qin_put': 110, 'qin_get': 111, 'qin_empty': 112, 'buf_full': 113, 'buf_qsize': 114, 'buf_append': 115, 'buf_pop': 116,
        'buf_timeout': 117, 'flag_isset': 118, 'flag_clear': 119, 'flag_set': 120, 'qout_put': 121, 'call': 122}


class PreErr(Exception):
    def __init__(self, code):
        super().__init__(code)
        self.code = code


def gen_cfg(rng, overload=False):
    b = rng.choice([0, 1, 2, 2, 2, 3, 3, 5]) if not overload else rng.choice([2, 3])
    wait = rng.choice([0, 0.5, 5.0]) if b >= 2 else 0      # the constructor requires batch_wait_time 0 without batching
    n = rng.choice([1, 1, 2, 3, 5, 8, 12]) if not overload else rng.choice([30, 40])
    t = 0.0
    arrivals = []
    for i in range(n):
        t += rng.choice([0, 0, 0.1, wait * 0.5, wait, wait * 1.5 + 0.1, 20.0]) if not overload else 0
        kind = 'x'
        r = rng.random()
        if r < 0.08:
            kind = 'exc'          # an exception value arriving from an upstream stage
        elif r < 0.16:
            kind = 'pre'          # rejected by preprocess
        arrivals.append([round(t, 3), i + 1, kind])
    good = [a[1] for a in arrivals if a[2] == 'x']
    poison = [u for u in good if rng.random() < 0.1] if rng.random() < 0.3 else []
    stall = rng.choice([0, 0, 50.0]) if overload else 0
    return {'b': b, 'wait': wait, 'arrivals': arrivals, 'poison': poison, 'stall_after_full': stall, 'nworkers': rng.choice([1, 1, 2, 3]) if not overload else 1,
            'call_dur': rng.choice([0, 0, 0.2, 3.0]) if not overload else rng.choice([0, 1.0]), 'overload': overload}


def run_batch(cfg, strategy, max_steps=80000):
    import logging

    from mpservice.mpserver import _worker
    from mpservice.multiprocessing.remote_exception import RemoteException
    _worker.logger.setLevel(logging.ERROR)
    S = detsched.Sched(strategy, max_steps=max_steps)
    S.keep_log = cfg['nworkers'] == 1 and cfg['b'] >= 2
    poison = set(cfg.get('poison', []))
    stall = cfg.get('stall_after_full', 0)
    b, wait = cfg['b'], cfg['wait']
    calls = []          # (worker, clock at call, [x...])
    taken = {}          # x -> clock at which the collector took it from q_in
    outs = []
    res = {'outcome': None}
    pre_bad = {a[1] for a in cfg['arrivals'] if a[2] == 'pre'}

    class STQ(vprims.VSimpleQueue):
        def __init__(self, name):
            super().__init__(name=name)
            self._rlock = vprims.VRLock()

        def get(self, *a, **k):
            z = super().get(*a, **k)
            if self.name == 'qin' and z is not None:
                taken[z[0]] = S.clock
            return z

    gets = []           # (thread, clock, uid or None) for every item leaving a batch buffer

    def body():
        import threading

        from mpservice import _queues

        class LoggedLane(_queues.SingleLane):
            def get(self, *a, **k):
                try:
                    z = super().get(*a, **k)
                except _queues.Empty:
                    S.ev('sl_timeout', '', 0)
                    raise
                gets.append([threading.current_thread().name, S.clock, None if z is None else z[0]])
                return z

            def full(self):
                S.yield_point('sl.full')
                r = super().full()
                S.ev('sl_full', '', r)
                if r and stall:
                    # the collector is descheduled for a while right after the test
                    S.block_until(lambda: False, stall, what='stall-after-full', lazy=True)
                return r

            def qsize(self):
                S.yield_point('sl.qsize')
                r = super().qsize()
                S.ev('sl_qsize', '', r)
                return r

        _worker.SingleLane = LoggedLane
        q_in, q_out = STQ('qin'), STQ('qout')

        class W(_worker.Worker):
            def __init__(self, **kw):
                super().__init__(batch_size=b, batch_wait_time=wait, **kw)
                self.batch_size_log_cadence = 0
                self.preprocess = self._pre

            def _pre(self, x):
                if x in pre_bad:
                    raise PreErr(x)
                return x

            def call(self, xs):
                calls.append([self.worker_index, S.clock, list(xs) if isinstance(xs, list) else xs])
                if not isinstance(xs, list):
                    S.yield_point('call')
                    if xs in poison:
                        raise ValueError('poisoned input')
                    return xs * 10
                S.ev('call', '', len(xs))
                if poison and any(x in poison for x in xs):
                    raise ValueError('poisoned batch')
                if cfg['call_dur']:
                    vprims.VClockNS.sleep(cfg['call_dur'])
                else:
                    S.yield_point('call')
                return [x * 10 for x in xs]

        ws = [threading.Thread(target=W.run, kwargs={'q_in': q_in, 'q_out': q_out, 'worker_index': j}, name=f'bw-{j}')
              for j in range(cfg['nworkers'])]
        for w in ws:
            w.start()
        for _ in ws:
            q_out.get()                      # init handshakes

        def producer():
            t0 = S.clock
            for t, x, kind in cfg['arrivals']:
                dt = t0 + t - S.clock
                if dt > 0:
                    S.block_until(lambda: False, dt, what='arrival-time', lazy=True)
                if kind == 'exc':
                    try:
                        raise ValueError(x)
                    except ValueError as e:
                        q_in.put((x, RemoteException(e)))
                else:
                    q_in.put((x, x))

        def sink():
            for _ in cfg['arrivals']:
                z = q_out.get()
                uid, y = z
                outs.append([uid, S.clock, 'exc' if isinstance(y, (RemoteException, BaseException)) else y])

        tp = threading.Thread(target=producer, name='producer')
        ts = threading.Thread(target=sink, name='sink')
        tp.start()
        ts.start()
        tp.join()
        ts.join()
        q_in.put(None)
        for w in ws:
            w.join()
        res['outcome'] = ['finished']

    extra = [(_worker, 'threading', vprims.make_threading_ns()), (_worker, 'queue', vprims.make_queue_ns()),
             (_worker, 'perf_counter', vprims.VClockNS.perf_counter)]
    orig_lane = _worker.SingleLane
    try:
        with inject.scheduled_world(extra):
            _, exc = S.run(body)
    finally:
        _worker.SingleLane = orig_lane
    if exc is not None:
        res['outcome'] = ['harness-error', repr(exc)]
    res.update(project(S) if S.keep_log else {'events': None})
    res.update({'verdict': S.verdict or 'ok', 'blocked': S.blocked_at_end, 'leaked': S.leaked, 'steps': S.steps,
                'error': S.error, 'decisions': S.decisions, 'calls': calls, 'taken': {str(k): v for k, v in taken.items()}, 'outs': outs, 'gets': gets})
    return res


def project(S):
    events = []

    def tid(name):
        if name in ('producer', 'main'):
            return 0
        if name.endswith('._build_input_batches'):
            return 1
        if name == 'bw-0':
            return 2
        return 99

    def uv(val):
        return V_END if val is None else val[0]

    for (t, op, obj, val) in S.log:
        T = tid(t)
        if T == 99:
            continue
        if obj == 'qin' and op == 'q_put':
            events.append([T, BOPS['qin_put'], uv(val)])
        elif obj == 'qin' and op == 'q_get' and T == 1:
            events.append([T, BOPS['qin_get'], uv(val)])
        elif obj == 'qin' and op == 'q_isempty' and T == 1:
            events.append([T, BOPS['qin_empty'], int(bool(val))])
        elif op == 'sl_full':
            events.append([T, BOPS['buf_full'], int(bool(val))])
        elif op == 'sl_qsize':
            events.append([T, BOPS['buf_qsize'], val])
        elif op == 'dq_append':
            events.append([T, BOPS['buf_append'], uv(val)])
        elif op == 'dq_popleft':
            events.append([T, BOPS['buf_pop'], uv(val)])
        elif op == 'sl_timeout':
            events.append([T, BOPS['buf_timeout'], 0])
        elif op == 'evt_isset' and T in (1, 2):
            events.append([T, BOPS['flag_isset'], int(bool(val))])
        elif op == 'evt_clear' and T in (1, 2):
            events.append([T, BOPS['flag_clear'], 0])
        elif op == 'evt_set' and T in (1, 2):
            events.append([T, BOPS['flag_set'], 0])
        elif obj == 'qout' and op == 'q_put' and T in (1, 2):
            if val is None:
                events.append([T, BOPS['qout_put'], V_END])
            elif isinstance(val, tuple):
                from mpservice.multiprocessing.remote_exception import RemoteException
                events.append([T, BOPS['qout_put'], val[0] * 2 + (1 if isinstance(val[1], (RemoteException, BaseException)) else 0)])
        elif op == 'call':
            events.append([T, BOPS['call'], val])
    return {'events': events}


def coq_case(r):
    from .core import clist, cnat, cz
    c = r['cfg']
    if r.get('events') is None:
        return '(2%nat, [], [], [], [], 1%nat)'       # run without an event log (several workers, or no batching): not replayed
    kinds = [{'x': 0, 'exc': 1, 'pre': 2}[a[2]] for a in c['arrivals']]
    evs = clist(r['events'], lambda e: f'({cnat(e[0])}, {cnat(e[1])}, {cz(e[2])})')
    calls = clist([cl[2] for cl in r['calls']], lambda l: clist(l, lambda x: cnat(x if isinstance(x, int) and 0 <= x < 4999 else 4999)))
    verdict = 0 if (r['verdict'] == 'ok' and r['outcome'] == ['finished']) else 1
    return f"({cnat(c['b'])}, {clist(kinds, cnat)}, {clist(c.get('poison', []), cnat)}, {evs}, {calls}, {cnat(verdict)})"


# ---- the timed policy of _get_input_batch in virtual time, single-threaded (differential check against
# ---- coq/Model/EagerBatcher.v) ----------------------------------------------------------------------------

class _Blocked(BaseException):
    pass


def gen_policy_case(rng):
    bs = rng.choice([2, 2, 3, 3, 4, 5, 8])
    w = rng.choice([0, 0, 1, 2, 3, 5, 10])
    n = rng.choice([0, 1, 1, 2, 3, 4, 5, 6, 8, 10, 14, 20])
    gaps = [0, 0, 0, 1, 1, 2, max(0, w - 1), w, w + 1, w + 2, 3 * w + 7]
    t = rng.choice([0, 0, 1, 5])
    arr = []
    for i in range(n):
        t += rng.choice(gaps)
        arr.append([t, rng.randrange(0, 50)])
    if rng.random() < 0.7:
        arr.append([t + rng.choice(gaps), 'END'])
    return {'bs': bs, 'w': w, 'style': 'none', 'arr': arr}


def run_policy_case(case):
    import queue as _q
    import threading

    from mpservice.mpserver import _worker
    clock = {'now': 0}

    class VQ:
        def __init__(self):
            self.arr = [(t, None if m == 'END' else (i + 1, m)) for i, (t, m) in enumerate(case['arr'])]
            self.got = []          # clock value at which each message was handed out

        def get(self, block=True, timeout=None):
            if not self.arr:
                if timeout is None:
                    raise _Blocked()
                clock['now'] += timeout
                raise _q.Empty
            t, m = self.arr[0]
            if timeout is None or t <= clock['now'] + timeout:
                clock['now'] = max(clock['now'], t)
                self.arr.pop(0)
                self.got.append(clock['now'])
                return m
            clock['now'] += timeout
            raise _q.Empty

        def put(self, z):
            self.arr.append((clock['now'], z))

    w = object.__new__(_worker.Worker)
    w.batch_size, w.batch_wait_time = case['bs'], case['w']
    w._batch_buffer = VQ()
    w._batch_get_called = threading.Event()
    saved = _worker.perf_counter
    _worker.perf_counter = lambda: clock['now']
    out = []
    finished = False
    taken = 0
    try:
        try:
            while True:
                b = w._get_input_batch()
                if b is None:
                    finished = True
                    break
                # third component: the clock when the batch's first element left the buffer (the model's first_t)
                vq = w._batch_buffer
                first_t = vq.got[taken] if taken < len(vq.got) else -1
                taken += len(b)
                out.append([[v[1] for v in b], clock['now'], first_t])
                if not w._batch_get_called.is_set():
                    out.append([[-999], -1, -1])        # the collector must be told that a batch was taken
                w._batch_get_called.clear()
        except _Blocked:
            finished = False
    finally:
        _worker.perf_counter = saved
    return {'finished': finished, 'batches': out}


def policy_main(seed, n, outp, corpus):
    import json

    from .props import c19
    rng = random.Random(seed)
    cases = [c.get('cfg') or c.get('case') for c in corpus] + [gen_policy_case(rng) for _ in range(n)]
    res = []
    for c in cases:
        try:
            obs, err = run_policy_case(c), None
        except Exception as e:  # noqa
            obs, err = {'finished': False, 'batches': []}, f'{type(e).__name__}: {e}'
        res.append({'case': c, 'cfg': c, 'obs': obs, 'crash': err, 'oracle': err or c19.oracle(c, obs), 'strategy': 'policy',
                    'verdict': 'ok'})
    json.dump(res, open(outp, 'w'), default=lambda o: f'<{type(o).__name__}: {o!r:.60}>')


def make_strategy(rng):
    kind = rng.choice(['random', 'random', 'pct', 'pct', 'greedy-flip'])
    if kind == 'random':
        return kind, detsched.RandomStrategy(rng)
    if kind == 'pct':
        return kind, detsched.PCTStrategy(rng, depth=rng.choice([1, 2, 3, 5, 8]), horizon=rng.choice([100, 400, 1500]))
    order = rng.choice([['producer', 'bw-0._build', 'bw-0', 'sink'], ['bw-0', 'sink', 'producer'], ['producer', 'sink', 'bw']])
    return kind, detsched.GreedyStrategy(order, rng, flip_p=rng.choice([0.05, 0.2]))


def main(argv):
    import json
    what, seed, n, outp = argv[0], int(argv[1]), int(argv[2]), argv[3]
    rest = argv[4:]
    corpus = json.load(open(rest[0])) if rest else []
    if what == 'policy':
        return policy_main(seed, n, outp, corpus)
    rng = random.Random(seed)
    out = []
    for c in corpus:
        r = run_batch(c['cfg'], detsched.ReplayStrategy([tuple(d) for d in c['decisions']]))
        r['cfg'], r['strategy'] = c['cfg'], 'corpus'
        out.append(r)
    for i in range(n):
        cfg = gen_cfg(rng, overload=(what == 'overload'))
        kind, st = make_strategy(rng)
        r = run_batch(cfg, st)
        r['cfg'], r['strategy'] = cfg, kind
        out.append(r)
    json.dump(out, open(outp, 'w'), default=lambda o: f'<{type(o).__name__}: {o!r:.60}>')


if __name__ == '__main__':
    import sys
    main(sys.argv[1:])
