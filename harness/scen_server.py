"""Scheduled scenarios for mpservice.mpserver.Server over a servlet stand-in ("bag" of workers that
answer pending requests in any order). Used by C06, C07, C02."""
from __future__ import annotations

import random
import types

from . import detsched, inject, vprims
from .events import V_END

# op codes of coq/Model/Server.v
SOPS = {'lock_acq': 20, 'lock_rel': 21, 'ledger_len': 22, 'cond_wait': 23, 'cond_expire': 24, 'cond_woke': 25,
        'cond_notify': 26, 'qin_put': 27, 'qin_get': 28, 'qout_put': 29, 'qout_get': 30, 'ledger_set': 31,
        'ledger_pop': 32, 'fut_result': 33, 'fut_cancelled': 34, 'fut_set': 35, 'qn_put': 36, 'qn_get': 37,
        'cancel': 38, 'join': 8}


class ServeErr(Exception):
    def __init__(self, code):
        super().__init__(code)
        self.code = code


class FalsyServeErr(ServeErr):
    """a falsy exception object (container-like): still a failure"""
    def __len__(self):
        return 0



def serve_value(x):
    return 7 * x + 3


def gen_overtake_cfg(rng):
    """capacity 1: request 0 holds the slot for 2 virtual seconds, caller 1 waits for it, caller 2 arrives at the very moment
    request 0's result is about to emerge and needs 7 more seconds: whoever loses the race for the freed slot waits again"""
    callers = [{'backpressure': False, 'x': 0, 'timeout': 1000, 'start_at': 0},
               {'backpressure': False, 'x': 1, 'timeout': 5, 'start_at': rng.choice([0, 1])},
               {'backpressure': False, 'x': 2, 'timeout': rng.choice([5, 1000]), 'start_at': 0, 'start_after': 0}]
    if rng.random() < 0.4:
        callers.append({'backpressure': rng.random() < 0.5, 'x': 3, 'timeout': 5, 'start_at': rng.choice([0, 3])})
    dur = {0: 2, 1: rng.choice([0, 7]), 2: 7, 3: 0}
    return {'capacity': 1, 'callers': callers, 'nworkers': rng.choice([1, 2]), 'fail': {}, 'timers_adversarial': False, 'dur': dur}


def gen_server_cfg(rng: random.Random, force_backpressure=None):
    if force_backpressure is None and rng.random() < 0.12:
        return gen_overtake_cfg(rng)
    m = rng.choice([1, 2, 2, 3, 3, 4, 5])
    cap = rng.choice([1, 1, 2, 2, 3])
    callers = []
    for i in range(m):
        bp = rng.random() < 0.4 if force_backpressure is None else force_backpressure
        callers.append({'backpressure': bp, 'x': i, 'timeout': rng.choice([5, 5, 1000])})
    fail = {}
    for i in range(m):
        if rng.random() < 0.15:
            fail[i] = rng.randrange(40, 44)
    # virtual service times: with deadline-ordered timers results emerge at different (virtual) moments, so that waiters are
    # woken, overtaken and wait again at times other than 0
    dur = {i: rng.choice([0, 0, 1, 2, 3, 7]) for i in range(m)} if rng.random() < 0.5 else {}
    if dur:
        for i, c in enumerate(callers):
            # staggered arrivals; some callers arrive at the very moment another request's result is about to emerge, so that
            # they race with the waiter that is being woken for the freed slot
            c['start_at'] = rng.choice([0, 0, 0, 1, 2])
            if i > 0 and rng.random() < 0.4:
                c['start_after'] = rng.randrange(0, i)
    return {'capacity': cap, 'callers': callers, 'nworkers': rng.choice([1, 2, 2, 3]), 'fail': fail,
            'timers_adversarial': rng.random() < 0.45, 'dur': dur}


class FakeServlet:
    """servlet stand-in: nworkers threads take (uid, x) from q_in and put (uid, serve(x)) on q_out"""
    input_queue_type = 'thread'
    output_queue_type = 'thread'

    def __init__(self, n, fail, S, dur=None, gates=None):
        self.n, self.fail, self.S = n, fail, S
        self.dur = dur or {}
        self.gates = gates or {}
        self.threads = []

    def start(self, q_in, q_out):
        import threading
        self.q_in, self.q_out = q_in, q_out
        for j in range(self.n):
            t = threading.Thread(target=self._work, name=f'bag-{j}')
            self.threads.append(t)
            t.start()

    def _work(self):
        while True:
            z = self.q_in.get()
            if z is None:
                self.q_in.put(None)      # leave the sentinel for the peers
                return
            uid, x = z
            d = self.dur.get(x) or self.dur.get(str(x))
            if d:
                vprims.VClockNS.sleep(d)
            if x in self.gates:
                self.gates[x].set()          # callers gated on this request arrive now
            if x in self.fail:
                y = (FalsyServeErr if self.fail[x] % 4 == 3 else ServeErr)(self.fail[x])
            else:
                y = serve_value(x)
            self.q_out.put((uid, y))

    def stop(self):
        self.q_in.put(None)
        for t in self.threads:
            t.join()
        self.q_out.put(None)

    def _debug_info(self):
        return {}


def run_server(cfg, strategy, max_steps=30000):
    import logging
    from mpservice.mpserver import _server
    _server.logger.setLevel(logging.ERROR)
    S = detsched.Sched(strategy, max_steps=max_steps, timers_adversarial=cfg.get('timers_adversarial', False))
    m = len(cfg['callers'])
    fail = {int(k): v for k, v in cfg['fail'].items()}
    outcomes = [None] * m
    res = {'outcome': None, 'exit_error': None}
    stats = {'backlog_max': 0, 'ledger': None, 'waited': {}, 'phase_done': False, 'final_backlog': None}

    vthreading = vprims.make_threading_ns()

    nf_waiting = set()

    class NotFull(vprims.LCondition):
        logname = 'notfull'

        def wait(self, timeout=None):
            me = S.me()
            nf_waiting.add(me)
            try:
                return super().wait(timeout)
            finally:
                nf_waiting.discard(me)

    vthreading.Condition = NotFull
    qnames = iter(['q_in', 'q_out'])

    class make_stq(vprims.VSimpleQueue):
        def __init__(self):
            super().__init__(name=next(qnames, 'q_extra'))

    vqueue = vprims.make_queue_ns()
    vqueue.SimpleQueue = lambda: vprims.VSimpleQueue(name='q_notify')

    def alloc_id(obj):
        t = S.me().name
        if t.startswith('caller-'):
            i = int(t.split('-')[1])
            try:
                obj.vid = i
            except Exception:
                pass
            return i
        return id(obj)

    class CallerIndexCounter:
        """stands in for itertools.count() in Server.__init__: the request of caller thread i gets uid i, so that
        uids are unique and the log identifies requests by caller"""

        def __iter__(self):
            return self

        def __next__(self):
            t = S.me().name
            return int(t.split('-')[1]) if t.startswith('caller-') else 10_000

    def caller(i):
        c = cfg['callers'][i]
        if c.get('start_at'):
            vprims.VClockNS.sleep(c['start_at'])
        if c.get('start_after') is not None:
            gates[c['start_after']].wait(timeout=50)
        t0 = S.clock
        try:
            y = server.call(c['x'], timeout=c['timeout'], backpressure=c['backpressure'])
            outcomes[i] = ['answered', y if isinstance(y, int) else -1]
        except _server.ServerBacklogFull as e:
            outcomes[i] = ['rejected', 0 if e.args[1] is None else 1]
        except _server.TimeoutError:
            outcomes[i] = ['timeout']
        except detsched.Abort:
            raise
        except ServeErr as e:
            outcomes[i] = ['answered-exc', e.code]
        except BaseException as e:  # noqa
            outcomes[i] = ['error', repr(e)[:200]]
        stats['waited'][i] = S.clock - t0

    server = None
    gates = {c['x']: vprims.VEvent() for c in cfg['callers']}

    def body():
        nonlocal server
        import threading
        server = _server.Server(FakeServlet(cfg['nworkers'], fail, S, cfg.get('dur'), gates), capacity=cfg['capacity'])
        class Ledger(vprims.LoggingDict):
            def __setitem__(self, k, v):
                try:
                    v.vid = k          # the future is identified in the log by its request id
                except Exception:
                    pass
                super().__setitem__(k, v)
        server._uid_counter = CallerIndexCounter()
        # Server.__enter__ starts with a fresh ledger and then starts its threads (_enter_server): the logging ledger is
        # put in place between the two
        orig_enter = _server._enter_server

        def enter_with_ledger(srv, *a, **k):
            srv._uid_to_futures = Ledger()
            stats['ledger'] = srv._uid_to_futures
            return orig_enter(srv, *a, **k)
        _server._enter_server = enter_with_ledger
        stats['restore_enter'] = orig_enter
        try:
            with server:
                ts = [threading.Thread(target=caller, args=(i,), name=f'caller-{i}') for i in range(m)]
                for t in ts:
                    t.start()
                for t in ts:
                    t.join()
                stats['phase_done'] = True
                stats['gather_alive_after_calls'] = server._gather_thread.is_alive()
                # let the pipeline drain: an idle server must have backlog zero
                S.block_until(lambda: False, 100000, what='idle-wait', lazy=True)
                stats['final_backlog'] = stats['ledger'].raw_len()
            res['outcome'] = ['exited']
        except detsched.Abort:
            raise
        except BaseException as e:  # noqa
            res['outcome'] = ['exit-raised', type(e).__name__]
            res['exit_error'] = repr(e)[:300]

    def observe(S_):
        led = stats['ledger']
        if led is not None:
            n = led.raw_len()
            if n > stats['backlog_max']:
                stats['backlog_max'] = n

    def on_quiescent(S_):
        # nothing can run until a timer fires, so no notification is under way; a caller still waiting for a
        # slot while the backlog is below capacity has lost its wake-up
        led = stats['ledger']
        if led is None or stats.get('lost_wakeup'):
            return
        n = led.raw_len()
        if n < cfg['capacity']:
            ws = sorted(t.name for t in nf_waiting if t.state == 'blocked')
            if ws:
                stats['lost_wakeup'] = {'waiting': ws, 'backlog': n, 'clock': S.clock}

    S.observers.append(observe)
    S.quiescent_observers.append(on_quiescent)
    extra = [
        (_server, 'threading', vthreading),
        (_server, 'queue', vqueue),
        (_server, 'concurrent', vprims.make_concurrent_ns()),
        (_server, 'perf_counter', vprims.VClockNS.perf_counter),
        (_server, 'id', alloc_id),
        (_server, '_SimpleThreadQueue', make_stq),
    ]
    try:
        with inject.scheduled_world(extra):
            _, exc = S.run(body)
    finally:
        if stats.get('restore_enter') is not None:
            _server._enter_server = stats['restore_enter']
    if exc is not None:
        res['outcome'] = ['harness-error', repr(exc)]
    res.update(project_server(S, cfg))
    res.update({'verdict': S.verdict or 'ok', 'blocked': S.blocked_at_end, 'leaked': S.leaked, 'steps': S.steps,
                'error': S.error, 'decisions': S.decisions, 'outcomes': outcomes, 'backlog_max': stats['backlog_max'],
                'waited': {str(k): v for k, v in stats['waited'].items()}, 'final_backlog': stats['final_backlog'],
                'gather_alive_after_calls': stats.get('gather_alive_after_calls'), 'lost_wakeup': stats.get('lost_wakeup')})
    return res


def project_server(S, cfg):
    """log -> events of coq/Model/Server.v: [tid, op, val, expire]"""
    events = []
    unknown = set()
    checked = {}       # caller tid -> has read the ledger length since it acquired the lock

    def tid(name):
        if name == 'main':
            return 0
        if name.startswith('Server._gather_output'):
            return 1
        if name.startswith('Thread-'):
            return 2
        if name.startswith('bag-'):
            return 10 + int(name.split('-')[1].split('#')[0])
        if name.startswith('caller-'):
            return 100 + int(name.split('-')[1].split('#')[0])
        unknown.add(name)
        return 999

    for (t, op, obj, val) in S.log:
        T = tid(t)
        ex = 0
        if op in ('start',) or op.startswith('evt_'):
            continue       # thread starts; the harness's own arrival gates
        if op == 'join':
            # only the final join of the gather thread by main, and the gather thread's join of the notifier
            if T == 0 and str(obj).startswith('Server._gather_output'):
                events.append([T, SOPS['join'], 0, 0])
            elif T == 1:
                events.append([T, SOPS['join'], 0, 0])
            continue
        if op in ('lock_acq', 'lock_rel') and obj == 'notfull':
            if op == 'lock_acq':
                checked[T] = False
            events.append([T, SOPS[op], 0, 0])
        elif op == 'ledger_len':
            if checked.get(T):
                continue       # re-reads inside `raise ServerBacklogFull(len(pipeline))`: value only used in the message
            checked[T] = True
            events.append([T, SOPS[op], val, 0])
        elif op == 'cond_wait':
            events.append([T, SOPS[op], 0, 0])
        elif op == 'cond_expire':
            events.append([T, SOPS[op], 0, 1])
        elif op == 'cond_woke':
            if val:
                checked[T] = False     # the loop re-reads the ledger length after a wake-up
            events.append([T, SOPS[op], int(bool(val)), 0])
        elif op == 'cond_notify':
            events.append([T, SOPS[op], val, 0])
        elif op in ('q_put', 'q_get'):
            item = val
            if obj == 'q_in':
                code = V_END if item is None else item[0]
                events.append([T, SOPS['qin_put' if op == 'q_put' else 'qin_get'], code, 0])
            elif obj == 'q_out':
                code = V_END if item is None else item[0]
                events.append([T, SOPS['qout_put' if op == 'q_put' else 'qout_get'], code, 0])
            elif obj == 'q_notify':
                code = V_END if item is None else 1
                events.append([T, SOPS['qn_put' if op == 'q_put' else 'qn_get'], code, 0])
            else:
                events.append([T, 98, 0, 0])
        elif op == 'ledger_set':
            events.append([T, SOPS[op], val, 0])
        elif op == 'ledger_pop':
            events.append([T, SOPS[op], val[0] * 2 + int(val[1]), 0])
        elif op == 'fut_wait':
            ok = int(bool(val))
            events.append([T, SOPS['fut_result'], ok, 1 - ok])
        elif op == 'fut_cancelled':
            events.append([T, SOPS[op], (obj if obj is not None else 0) * 2 + int(bool(val)), 0])
        elif op == 'fut_done':
            events.append([T, SOPS['fut_set'], (obj if obj is not None else 0) * 2 + 1, 0])
        elif op == 'fut_set_failed':
            events.append([T, SOPS['fut_set'], (obj if obj is not None else 0) * 2, 0])
        elif op == 'fut_cancel':
            events.append([T, SOPS['cancel'], int(bool(val)), 0])
        else:
            events.append([T, 97, 0, 0])
    return {'events': events, 'unknown_threads': sorted(unknown)}


def coq_server_case(r):
    from .core import cbool, clist, cnat, cz
    c = r['cfg']
    callers = clist(c['callers'], lambda k: f"({cbool(k['backpressure'])}, {cz(k['x'])})")
    fail = clist(sorted((int(k), v) for k, v in c['fail'].items()), lambda kv: f'({cz(kv[0])}, {cz(kv[1])})')
    evs = clist(r['events'], lambda e: f'({cnat(e[0])}, {cnat(e[1])}, {cz(e[2])}, {cbool(e[3])})')
    verdict = 0 if r['verdict'] == 'ok' else 1
    return f"({cnat(c['capacity'])}, {callers}, {cnat(c['nworkers'])}, {fail}, {evs}, {cnat(verdict)}, {cnat(r['backlog_max'])})"


class CancelInWindow:
    """wraps a strategy: when the gather thread has just seen `fut.cancelled() == False` for a request whose caller
    is waiting for the result with a deadline, let that deadline expire now (with probability p), so that the
    cancel() lands between the test and set_result / set_exception"""

    def __init__(self, base, rng, p=0.8):
        self.base, self.rng, self.p = base, rng, p

    def choose(self, S, cands, cur):
        if S.log:
            t, op, obj, val = S.log[-1]
            if op == 'fut_cancelled' and not val and t.startswith('Server._gather_output') and obj is not None:
                for i, (th, fire) in enumerate(cands):
                    if fire and th.name == f'caller-{obj}' and self.rng.random() < self.p:
                        return i
        return self.base.choose(S, cands, cur)


def make_strategy(rng, cfg):
    kind, st = make_strategy0(rng, cfg)
    if cfg.get('timers_adversarial') and rng.random() < 0.4:
        return kind + '+cancel-in-window', CancelInWindow(st, rng)
    return kind, st


def make_strategy0(rng, cfg):
    kind = rng.choice(['random', 'random', 'pct', 'greedy', 'greedy-flip'])
    if kind == 'random':
        return kind, detsched.RandomStrategy(rng, timer_p=rng.choice([0.0, 0.05, 0.2]) if cfg.get('timers_adversarial') else 0.0)
    if kind == 'pct':
        return kind, detsched.PCTStrategy(rng, depth=rng.choice([1, 2, 3, 5]), horizon=rng.choice([50, 150, 400]))
    order = rng.choice([['caller', 'bag', 'Server', 'Thread', 'main'], ['bag', 'Server', 'Thread', 'caller', 'main'],
                        ['Server', 'caller', 'bag', 'Thread'], ['caller', 'Thread', 'bag', 'Server']])
    if kind == 'greedy':
        return kind, detsched.GreedyStrategy(order)
    return kind, detsched.GreedyStrategy(order, rng, flip_p=rng.choice([0.05, 0.2]))


def main(argv):
    import json
    what, seed, n, outp = argv[0], int(argv[1]), int(argv[2]), argv[3]
    rest = argv[4:]
    corpus = json.load(open(rest[0])) if rest else []
    rng = random.Random(seed)
    out = []
    for c in corpus:
        r = run_server(c['cfg'], detsched.ReplayStrategy([tuple(d) for d in c['decisions']]))
        r['cfg'], r['strategy'] = c['cfg'], 'corpus'
        out.append(r)
    for i in range(n):
        cfg = gen_server_cfg(rng)
        kind, st = make_strategy(rng, cfg)
        r = run_server(cfg, st)
        r['cfg'], r['strategy'] = cfg, kind
        out.append(r)
    json.dump(out, open(outp, 'w'), default=lambda o: f'<{type(o).__name__}: {o!r:.60}>')


if __name__ == '__main__':
    import sys
    main(sys.argv[1:])
