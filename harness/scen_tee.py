"""Scheduled scenarios for mpservice.streamer._tee.tee (n forks consumed by n threads). Used by C10."""
from __future__ import annotations

import random
import types

from . import detsched, inject, vprims
from .events import OPS, V_END, v_exc

TOPS = {'head_read': 60, 'head_set': 61, 'ilock_acq': 62, 'ilock_rel': 63, 'buf_put': 64, 'buf_get': 65,
        'next_read': 66, 'link': 67, 'block_acq': 68, 'block_rel': 69, 'n_set': 70}


class SrcErr(Exception):
    def __init__(self, code):
        super().__init__(code)
        self.code = code


def gen_cfg(rng: random.Random):
    n = rng.choice([2, 2, 2, 3])
    bs = rng.choice([2, 2, 3])
    length = rng.choice([0, 1, 2, 3, bs + 1, bs + 2, bs + 4])
    src = [['d', i] for i in range(length)]
    if rng.random() < 0.3:
        src.insert(rng.randrange(0, length + 1), ['e', rng.randrange(1, 4)])
    return {'nforks': n, 'bufsize': bs, 'src': src}


def run_tee(cfg, strategy, max_steps=6000):
    from mpservice.streamer import _tee
    S = detsched.Sched(strategy, max_steps=max_steps)
    n = cfg['nforks']
    res = {'outcome': None}
    got = [[] for _ in range(n)]
    ends = [None] * n
    box_ids = {}
    state = {'pulled': 0}

    def bid(box):
        if box is None:
            return -1
        return box_ids.get(id(box), -2)

    RealTeeX = _tee.TeeX

    class LTeeX(RealTeeX):
        """TeeX whose `next` and `n` are logged properties (the parent's slots hold the values)."""
        __slots__ = ()

        def __init__(self, x):
            RealTeeX.__init__(self, x)
            box_ids[id(self)] = len(box_ids)
            self.lock.logname = f'box{box_ids[id(self)]}'
            self.lock.boxid = box_ids[id(self)]

        def _get_next(self):
            S.yield_point('box.next')
            v = RealTeeX.next.__get__(self)
            S.ev('next_read', '', bid(v))
            return v

        def _set_next(self, v):
            if v is None:
                return RealTeeX.next.__set__(self, v)       # initialisation in __init__
            S.yield_point('box.link')
            RealTeeX.next.__set__(self, v)
            S.ev('link', '', bid(v))

        next = property(_get_next, _set_next)

        def _get_n(self):
            return RealTeeX.n.__get__(self)

        def _set_n(self, v):
            if v == 0:
                return RealTeeX.n.__set__(self, v)
            S.yield_point('box.n')
            RealTeeX.n.__set__(self, v)
            S.ev('n_set', '', v)

        n = property(_get_n, _set_n)

    class Head:
        def __init__(self):
            object.__setattr__(self, '_v', None)
            object.__setattr__(self, '_init', False)

        def __getattr__(self, k):
            raise AttributeError(k)

        @property
        def value(self):
            S.yield_point('head.read')
            v = self._v
            S.ev('head_read', '', bid(v))
            return v

        @value.setter
        def value(self, v):
            if not self._init:
                object.__setattr__(self, '_init', True)      # `head.value = None` in tee()
                object.__setattr__(self, '_v', v)
                return
            S.yield_point('head.set')
            object.__setattr__(self, '_v', v)
            S.ev('head_set', '', bid(v))

    class LLock(vprims.VLock):
        logname = None
        boxid = None
        _count = [0]

        def __init__(self):
            super().__init__()
            LLock._count[0] += 1
            if LLock._count[0] == 1:
                self.logname = 'ilock'

        def acquire(self, blocking=True, timeout=-1):
            ok = super().acquire(blocking, timeout)
            if self.logname == 'ilock':
                S.ev('ilock_acq', '', int(ok))
            elif ok:
                S.ev('block_acq', '', self.boxid)
            return ok

        def release(self):
            s = S
            s.yield_point('lock.release')
            self.count -= 1
            if self.count == 0:
                self.owner = None
            if self.logname == 'ilock':
                s.ev('ilock_rel', '', 0)
            else:
                s.ev('block_rel', '', self.boxid)
            s.yield_point('lock.released')       # a fork can be preempted between releasing a lock and its next line

        __enter__ = acquire

        def __exit__(self, *a):
            self.release()

    LLock._count = [0]
    vthreading = vprims.make_threading_ns()
    vthreading.Lock = LLock
    vqueue = vprims.make_queue_ns()
    vqueue.Queue = lambda size: vprims.VQueue(size, name='buffer')

    class Source:
        def __init__(self, table):
            self.table, self.i = list(table), 0

        def __iter__(self):
            return self

        def __next__(self):
            S.yield_point('src.next')
            if self.i >= len(self.table):
                S.ev('src_next', '', V_END)
                raise StopIteration
            kind, v = self.table[self.i]
            self.i += 1
            if kind == 'd':
                state['pulled'] += 1
                S.ev('src_next', '', v)
                return v
            S.ev('src_next', '', v_exc(v))
            raise SrcErr(v)

    stats = {'window_max': 0}

    def body():
        import threading
        streams = _tee.tee(Source(cfg['src']), n, buffer_size=cfg['bufsize'])

        def consume(i):
            try:
                for v in streams[i]:
                    S.ev('recv', '', v)
                    got[i].append(v)
                ends[i] = ['finished']
            except detsched.Abort:
                raise
            except SrcErr as e:
                ends[i] = ['raised', e.code]
            except BaseException as e:  # noqa
                ends[i] = ['error', repr(e)[:100]]

        ts = [threading.Thread(target=consume, args=(i,), name=f'fork-{i}') for i in range(n)]
        for t in ts:
            t.start()
        for t in ts:
            t.join()
        res['outcome'] = ['finished']

    def observe(S_):
        w = state['pulled'] - min(len(g) for g in got)
        if w > stats['window_max']:
            stats['window_max'] = w

    S.observers.append(observe)
    extra = [(_tee, 'threading', vthreading), (_tee, 'queue', vqueue), (_tee, 'TeeX', LTeeX),
             (_tee, 'SimpleNamespace', Head)]
    with inject.scheduled_world(extra):
        _, exc = S.run(body)
    if exc is not None:
        res['outcome'] = ['harness-error', repr(exc)]
    res.update(project(S, box_ids))
    res.update({'verdict': S.verdict or 'ok', 'blocked': S.blocked_at_end, 'leaked': S.leaked, 'steps': S.steps,
                'error': S.error, 'decisions': S.decisions, 'got': got, 'ends': ends, 'pulled': state['pulled'],
                'window_max': stats['window_max']})
    return res


def project(S, box_ids):
    events = []
    unknown = set()

    def tid(name):
        if name.startswith('fork-'):
            return 10 + int(name.split('-')[1].split('#')[0])
        if name == 'main':
            return 0
        unknown.add(name)
        return 99

    for (t, op, obj, val) in S.log:
        T = tid(t)
        if op in ('start', 'join'):
            continue
        ex = 0
        if op in TOPS:
            if op == 'ilock_acq' and val == 0:
                ex = 1
            events.append([T, TOPS[op], val if isinstance(val, int) else 0, ex])
        elif op in ('q_put', 'q_get') and obj == 'buffer':
            events.append([T, TOPS['buf_put' if op == 'q_put' else 'buf_get'], box_ids.get(id(val), -2), 0])
        elif op == 'src_next':
            events.append([T, OPS['src_next'], val, 0])
        elif op == 'recv':
            events.append([T, OPS['recv'], val, 0])
        else:
            events.append([T, 98, 0, 0])
    return {'events': events, 'unknown_threads': sorted(unknown)}


def coq_case(r):
    from .core import cbool, clist, cnat, cz
    c = r['cfg']
    src = clist(c['src'], lambda kv: ('SData ' if kv[0] == 'd' else 'SRaise ') + cz(kv[1]))
    verdict = {'ok': 0, 'deadlock': 1}.get(r['verdict'], 2)
    events = r['events'] if verdict != 2 else r['events'][:400]
    evs = clist(events, lambda e: f'({cnat(e[0])}, {cnat(e[1])}, {cz(e[2])}, {cbool(e[3])})')
    return f"({cnat(c['nforks'])}, {cnat(c['bufsize'])}, {src}, {evs}, {cnat(verdict)})"


def make_strategy(rng):
    kind = rng.choice(['random', 'random', 'pct', 'greedy', 'greedy-flip'])
    if kind == 'random':
        return kind, detsched.RandomStrategy(rng)
    if kind == 'pct':
        return kind, detsched.PCTStrategy(rng, depth=rng.choice([1, 2, 3, 5]), horizon=rng.choice([50, 150, 400]))
    order = rng.choice([['fork-0', 'fork-1', 'fork-2'], ['fork-1', 'fork-0', 'fork-2'], ['fork-2', 'fork-1', 'fork-0']])
    if kind == 'greedy':
        return kind, detsched.GreedyStrategy(order)
    return kind, detsched.GreedyStrategy(order, rng, flip_p=rng.choice([0.05, 0.2]))


def main(argv):
    import json
    what, seed, n, outp = argv[0], int(argv[1]), int(argv[2]), argv[3]
    rest = argv[4:]
    corpus = json.load(open(rest[0])) if rest else []
    rng = random.Random(seed)
    out = []
    for c in corpus:
        r = run_tee(c['cfg'], detsched.ReplayStrategy([tuple(d) for d in c['decisions']]))
        r['cfg'], r['strategy'] = c['cfg'], 'corpus'
        out.append(r)
    for i in range(n):
        cfg = gen_cfg(rng)
        kind, st = make_strategy(rng)
        r = run_tee(cfg, st)
        r['cfg'], r['strategy'] = cfg, kind
        out.append(r)
    json.dump(out, open(outp, 'w'))


if __name__ == '__main__':
    import sys
    main(sys.argv[1:])
