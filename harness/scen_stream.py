"""Scheduled scenarios for the stream family (Buffer, fifo_stream, Parmapper)."""
from __future__ import annotations

import random

from . import detsched, inject
from .events import OPS, V_END, V_STOPPED, v_exc


class SrcErr(Exception):
    def __init__(self, code):
        super().__init__(code)
        self.code = code


def make_base_exc(code):
    from mpservice._common import StopRequested
    e = StopRequested(code)
    e.code = code
    return e


class Source:
    """instrumented source: every next() is a yield point and is logged."""

    def __init__(self, table, S):
        self.table = list(table)
        self.i = 0
        self.S = S
        self.pulled = 0

    def __iter__(self):
        return self

    def __next__(self):
        S = self.S
        S.yield_point('src.next')
        if self.i >= len(self.table):
            S.ev('src_next', '', V_END)
            raise StopIteration
        kind, v = self.table[self.i]
        self.i += 1
        if kind == 'd':
            self.pulled += 1
            S.ev('src_next', '', v)
            return v
        S.ev('src_next', '', v_exc(v))
        if kind == 'e':
            raise SrcErr(v)
        raise make_base_exc(v)


def code_of(x):
    """canonical integer code of a value travelling through a queue"""
    from mpservice.streamer import _streamer
    if x is None:
        return V_END
    if isinstance(x, int):
        return x
    if isinstance(x, str):
        if x == _streamer.FINISHED:
            return V_END
        if x == _streamer.STOPPED:
            return V_STOPPED
    if isinstance(x, BaseException):
        return v_exc(getattr(x, 'code', 999))
    if isinstance(x, tuple) and len(x) == 2:
        return code_of(x[0])      # (x, future) pairs in fifo_stream are identified by x
    return -999999


# ------------------------------------------------------------------------------------------------

def gen_buffer_cfg(rng: random.Random):
    maxsize = rng.choice([1, 1, 2, 2, 3, 4])
    n = rng.choice([0, 1, 2, 3, 4, 5, 6, 8])
    table = [('d', i) for i in range(n)]
    r = rng.random()
    if r < 0.25:
        table.insert(rng.randrange(0, n + 1), ('e', rng.randrange(1, 4)))
    elif r < 0.32:
        table.insert(rng.randrange(0, n + 1), ('b', rng.randrange(1, 4)))
    stop_after = rng.choice([None, None, 1, 1, 2, 3, 5])
    return {'maxsize': maxsize, 'src': table, 'stop_after': stop_after}


def make_strategy(rng: random.Random, kind=None, order=None):
    kind = kind or rng.choice(['random', 'random', 'pct', 'greedy', 'greedy-flip'])
    if kind == 'random':
        # timed waits (the unchanged Buffer / fifo_stream have none on these paths) may expire while others can run
        return kind, detsched.RandomStrategy(rng, timer_p=rng.choice([0.0, 0.1, 0.3]))
    if kind == 'pct':
        return kind, detsched.PCTStrategy(rng, depth=rng.choice([1, 2, 3, 5]), horizon=rng.choice([30, 100, 300]))
    order = order or rng.choice([['Buffer', 'fifo', 'parmapper', 'pool', 'main'], ['main', 'Buffer', 'fifo', 'pool'],
                                 ['pool', 'main', 'fifo'], ['fifo', 'main', 'pool']])
    if kind == 'greedy':
        return kind, detsched.GreedyStrategy(order)
    return kind, detsched.GreedyStrategy(order, rng, flip_p=rng.choice([0.05, 0.2]))


def run_buffer(cfg, strategy, max_steps=5000):
    """Runs the real Buffer under the scheduler. Returns a result dict."""
    from mpservice.streamer import _streamer
    S = detsched.Sched(strategy, max_steps=max_steps)
    S.extra_yields = True
    S.adversarial_what = ('get(', 'wait(')       # a timed queue read may expire while the producer is merely slow
    got = []
    res = {'outcome': None}
    ahead_max = [0]
    src_holder = []

    def body():
        src = Source(cfg['src'], S)
        src_holder.append(src)
        buf = _streamer.Buffer(src, maxsize=cfg['maxsize'])
        it = iter(buf)
        try:
            for z in it:
                S.ev('recv', '', z)
                got.append(z)
                if cfg['stop_after'] is not None and len(got) >= max(1, cfg['stop_after']):
                    res['outcome'] = ['broke']
                    break
            else:
                res['outcome'] = ['completed']
            it.close()
        except detsched.Abort:
            raise
        except BaseException as e:  # noqa
            res['outcome'] = ['raised', getattr(e, 'code', 999), type(e).__name__]

    def observe(S_):
        if src_holder:
            a = src_holder[0].pulled - len(got)
            if a > ahead_max[0]:
                ahead_max[0] = a

    S.observers.append(observe)
    with inject.scheduled_world():
        _, exc = S.run(body)
    if exc is not None:
        res['outcome'] = ['harness-error', repr(exc)]
    roles = {'main': 0, 'Buffer-worker-thread': 1}
    events = []
    for (t, op, obj, val) in S.log:
        if op in ('evt_clear',):
            continue
        if op in ('evt_set', 'start'):
            val = 0          # (join keeps its value: 0 = the worker had ended, 1 = the timed join expired)
        events.append([roles.get(t, 99), OPS.get(op, 99), code_of(val) if not isinstance(val, bool) else int(val)])
    res.update({'events': events, 'verdict': S.verdict or 'ok', 'blocked': S.blocked_at_end, 'leaked': S.leaked,
                'received': got, 'steps': S.steps, 'error': S.error, 'decisions': S.decisions,
                'pulled': src_holder[0].pulled if src_holder else 0, 'ahead_max': ahead_max[0]})
    return res


class CallErr(Exception):
    def __init__(self, code):
        super().__init__(code)
        self.code = code


class PreErr(Exception):
    def __init__(self, code):
        super().__init__(code)
        self.code = code


class FalsyCallErr(CallErr):
    """an exception object that is falsy (a container-like exception): still a failure"""
    def __len__(self):
        return 0


class FalsyPreErr(PreErr):
    def __bool__(self):
        return False


def call_err(code):
    return (FalsyCallErr if code % 4 == 3 else CallErr)(code)


def pre_err(code):
    return (FalsyPreErr if code % 4 == 1 else PreErr)(code)


PRE_OFFSET = 100


def gen_fifo_cfg(rng: random.Random):
    mode = rng.choice(['fifo', 'fifo', 'parmap'])
    conc = rng.choice([1, 1, 2, 3])
    cap = 2 * conc if mode == 'parmap' else rng.choice([1, 1, 2, 3, 4])
    n = rng.choice([0, 1, 2, 3, 4, 5, 6, 8, 10, 12])
    table = [('d', i) for i in range(n)]
    r = rng.random()
    if r < 0.2:
        table.insert(rng.randrange(0, n + 1), ('e', rng.randrange(1, 4)))
    elif r < 0.26:
        table.insert(rng.randrange(0, n + 1), ('b', rng.randrange(1, 4)))
    has_pre = rng.random() < 0.4
    pre_fail = {}
    call_fail = {}
    for i in range(n):
        if has_pre and rng.random() < 0.15:
            pre_fail[i] = rng.randrange(10, 14)
        elif rng.random() < 0.15:
            call_fail[i] = rng.randrange(20, 24)
    return {'mode': mode, 'cap': cap, 'conc': conc, 'src': table, 'has_pre': has_pre,
            'pre_fail': pre_fail, 'call_fail': call_fail,
            'return_x': rng.random() < 0.4, 'return_exc': rng.random() < 0.5,
            'stop_after': rng.choice([None, None, None, 1, 2, 3, 5])}


def call_value(xx):
    return 3 * xx + 1


def run_fifo(cfg, strategy, max_steps=20000):
    """Runs the real fifo_stream / Parmapper under the scheduler with a managed thread pool."""
    from mpservice.streamer import _streamer
    from . import vprims
    S = detsched.Sched(strategy, max_steps=max_steps)
    S.extra_yields = True
    S.adversarial_what = ('get(', 'wait(')       # a timed queue read may expire while the producer is merely slow
    got = []
    res = {'outcome': None}
    src_holder = []
    stats = {'running': 0, 'running_max': 0, 'ahead_max': 0, 'calls': []}
    has_pre = cfg['has_pre']
    pre_fail = {int(k): v for k, v in cfg['pre_fail'].items()}
    call_fail = {int(k): v for k, v in cfg['call_fail'].items()}

    def user_fn(xx):
        x = xx - PRE_OFFSET if has_pre else xx
        S.ev('call_begin', '', x)
        stats['calls'].append(x)
        stats['running'] += 1
        stats['running_max'] = max(stats['running_max'], stats['running'])
        try:
            S.yield_point('user_fn')
            if x in call_fail:
                raise call_err(call_fail[x])
            return call_value(xx)
        finally:
            stats['running'] -= 1
            if not S.aborting:
                S.ev('call_end', '', x)

    def preprocessor(x):
        S.ev('preproc', '', x)
        if x in pre_fail:
            raise pre_err(pre_fail[x])
        return x + PRE_OFFSET

    def consume(it):
        try:
            for z in it:
                S.ev('recv', '', z)
                got.append(z)
                if cfg['stop_after'] is not None and len(got) >= max(1, cfg['stop_after']):
                    res['outcome'] = ['broke']
                    break
            else:
                res['outcome'] = ['completed']
            it.close()
        except detsched.Abort:
            raise
        except BaseException as e:  # noqa
            res['outcome'] = ['raised', getattr(e, 'code', 999), type(e).__name__]

    def body():
        src = Source(cfg['src'], S)
        src_holder.append(src)
        kw = {}
        if has_pre:
            kw['preprocessor'] = preprocessor
        if cfg['mode'] == 'parmap':
            pm = _streamer.Parmapper(src, user_fn, executor='thread', concurrency=cfg['conc'],
                                     return_x=cfg['return_x'], return_exceptions=cfg['return_exc'],
                                     parmapper_name='fifo-stream-feeder-thread', **kw)
            consume(iter(pm))
        else:
            pool = vprims.VThreadPool(cfg['conc'])
            try:
                def func(xx):
                    return pool.submit(user_fn, xx, loud_exception=False)
                it = _streamer.fifo_stream(src, func, capacity=cfg['cap'], return_x=cfg['return_x'],
                                           return_exceptions=cfg['return_exc'], **kw)
                consume(it)
            finally:
                if not S.aborting:
                    pool.shutdown()

    def observe(S_):
        if src_holder:
            a = src_holder[0].pulled - len(got)
            if a > stats['ahead_max']:
                stats['ahead_max'] = a

    S.observers.append(observe)
    with inject.scheduled_world():
        _, exc = S.run(body)
    if exc is not None:
        res['outcome'] = ['harness-error', repr(exc)]
    res.update(project_fifo(S, cfg))
    res.update({'verdict': S.verdict or 'ok', 'blocked': S.blocked_at_end, 'leaked': S.leaked,
                'received': [recv_code(z, cfg) for z in got], 'steps': S.steps, 'error': S.error,
                'decisions': S.decisions, 'pulled': src_holder[0].pulled if src_holder else 0,
                'ahead_max': stats['ahead_max'], 'running_max': stats['running_max'], 'calls': stats['calls']})
    return res


def recv_code(z, cfg):
    def c1(y):
        if isinstance(y, BaseException):
            return v_exc(getattr(y, 'code', 999))
        return y if isinstance(y, int) else -999999
    if cfg['return_x']:
        if not (isinstance(z, tuple) and len(z) == 2):
            return -999998
        return z[0] * 1000000 + c1(z[1]) + 500000
    return c1(z)


def project_fifo(S, cfg):
    from .vprims import PoolItem
    has_pre = cfg['has_pre']
    events = []
    last_pop = {}
    unknown_threads = set()

    def tid(name):
        if name == 'main':
            return 0
        if name.startswith('fifo-stream-feeder-thread'):
            return 1
        if name.startswith('pool-'):
            return 10 + int(name.split('-')[1].split('#')[0])
        unknown_threads.add(name)
        return 99

    def dec(xx):
        if xx is None:
            return None
        return xx - PRE_OFFSET if has_pre else xx

    for (t, op, obj, val) in S.log:
        T = tid(t)
        if op == 'start':
            if not str(obj).startswith('fifo-stream-feeder-thread'):
                continue
            events.append([T, OPS['start'], 0])
        elif op == 'join':
            if not str(obj).startswith('fifo-stream-feeder-thread'):
                continue
            events.append([T, OPS['join'], 0])
        elif op == 'q_put' and obj == 'poolq':
            if isinstance(val, PoolItem):
                events.append([T, OPS['submit'], val.vid])
        elif op == 'q_get' and obj == 'poolq':
            if isinstance(val, PoolItem):
                events.append([T, OPS['pool_take'], dec(val.vid)])
        elif op == 'fut_running':
            events.append([T, OPS['fut_running'], dec(obj) * 2 + int(bool(val))])
        elif op == 'fut_done':
            if obj is None:
                continue       # fresh pre-failed future made by the feeder: thread-local
            events.append([T, OPS['fut_done'], dec(obj)])
        elif op == 'fut_wait':
            x = dec(obj) if obj is not None else last_pop.get(T)
            events.append([T, OPS['fut_wait'], x])
        elif op == 'fut_cancel':
            x = dec(obj) if obj is not None else last_pop.get(T)
            events.append([T, OPS['fut_cancel'], x * 2 + int(bool(val))])
        elif op in ('call_begin', 'call_end', 'fut_cancelled', 'evt_clear'):
            continue
        elif op in ('dq_append', 'dq_popleft'):
            c = code_of(val)
            if op == 'dq_popleft':
                last_pop[T] = c
            events.append([T, OPS[op], c])
        elif op == 'recv':
            events.append([T, OPS['recv'], recv_code(val, cfg)])
        elif op == 'evt_set':
            events.append([T, OPS[op], 0])
        elif op in ('evt_isset', 'q_empty'):
            events.append([T, OPS[op], int(bool(val))])
        elif op in ('src_next', 'preproc'):
            events.append([T, OPS[op], code_of(val)])
        else:
            events.append([T, 98, 0])
    return {'events': events, 'unknown_threads': sorted(unknown_threads)}


# ------------------------------------------------------------------------------------------------
# coq literals
# ------------------------------------------------------------------------------------------------

def coq_src(table):
    from .core import clist, cz
    return clist(table, lambda kv: {'d': 'SData', 'e': 'SRaise', 'b': 'SRaiseBase'}[kv[0]] + ' ' + cz(kv[1]))


def coq_events(evs):
    from .core import clist, cnat, cz
    return clist(evs, lambda e: f'({cnat(e[0])}, {cnat(e[1])}, {cz(e[2])})')


def outcome_code(o):
    if o is None:
        return -1
    return {'completed': 0, 'broke': 1}.get(o[0], 2 + o[1] if o[0] == 'raised' else -5)


def coq_buffer_case(r):
    from .core import cnat, copt, cz
    c = r['cfg']
    verdict = 0 if r['verdict'] == 'ok' else 1
    return (f"({cnat(c['maxsize'])}, {coq_src(c['src'])}, {copt(c['stop_after'], cnat)}, {coq_events(r['events'])}, "
            f"{cnat(verdict)}, {cz(outcome_code(r['outcome']))})")


def coq_fifo_case(r):
    from .core import cbool, clist, cnat, copt, cz
    c = r['cfg']
    verdict = 0 if r['verdict'] == 'ok' else 1
    pf = clist(sorted((int(k), v) for k, v in c['pre_fail'].items()), lambda kv: f'({cz(kv[0])}, {cz(kv[1])})')
    cf = clist(sorted((int(k), v) for k, v in c['call_fail'].items()), lambda kv: f'({cz(kv[0])}, {cz(kv[1])})')
    return (f"({cnat(c['cap'])}, {cnat(c['conc'])}, {coq_src(c['src'])}, {cbool(c['has_pre'])}, {pf}, {cf}, "
            f"({cbool(c['return_x'])}, {cbool(c['return_exc'])}), {copt(c['stop_after'], cnat)}, "
            f"{coq_events(r['events'])}, {cnat(verdict)}, {cz(outcome_code(r['outcome']))})")


def main(argv):
    import json
    what, seed, n, outp = argv[0], int(argv[1]), int(argv[2]), argv[3]
    rest = argv[4:]
    bias = None
    if rest and rest[0] in ('greedy',):
        bias = rest.pop(0)
    corpus = json.load(open(rest[0])) if rest else []

    def strat(i):
        if bias == 'greedy' and i % 2 == 0:
            order = [['Buffer', 'fifo', 'main', 'pool'], ['fifo', 'Buffer', 'pool', 'main']][(i // 2) % 2]
            return make_strategy(rng, 'greedy-flip' if i % 4 == 0 else 'greedy', order)
        return make_strategy(rng)

    rng = random.Random(seed)
    out = []
    if what == 'buffer':
        for c in corpus:
            r = run_buffer(c['cfg'], detsched.ReplayStrategy([tuple(d) for d in c['decisions']]))
            r['cfg'], r['strategy'] = c['cfg'], 'corpus'
            out.append(r)
        for i in range(n):
            cfg = gen_buffer_cfg(rng)
            kind, st = strat(i)
            r = run_buffer(cfg, st)
            r['cfg'], r['strategy'] = cfg, kind
            out.append(r)
    if what == 'fifo':
        for c in corpus:
            r = run_fifo(c['cfg'], detsched.ReplayStrategy([tuple(d) for d in c['decisions']]))
            r['cfg'], r['strategy'] = c['cfg'], 'corpus'
            out.append(r)
        for i in range(n):
            cfg = gen_fifo_cfg(rng)
            kind, st = strat(i)
            r = run_fifo(cfg, st)
            r['cfg'], r['strategy'] = cfg, kind
            out.append(r)
    json.dump(out, open(outp, 'w'), default=lambda o: f'<{type(o).__name__}: {o!r:.60}>')


if __name__ == '__main__':
    import sys
    main(sys.argv[1:])
