"""Scheduled scenario: stopping the real SequentialServlet(ThreadServlet, ThreadServlet) while requests are still in
flight, with the connecting queue replaced by a virtual pipe that cannot hold a result (a data item is handed over only to
a reader already waiting in get(); the stop marker and the start handshake always fit), as an OS pipe behaves for results
larger than its buffer. Model: coq/Model/SeqStop.v. Used by C11."""
from __future__ import annotations

import random

from . import detsched, inject, vprims
from .events import OPS, V_END

SOPS = {'q0_put': 130, 'q0_get': 131, 'q1_put': 132, 'q1_wait': 133, 'q1_get': 134, 'q2_put': 135, 'q2_get': 136}


def gen_cfg(rng):
    return {'nw': rng.choice([1, 1, 1, 2]), 'pending': list(range(1, rng.choice([0, 1, 2, 3, 5]) + 1))}


def is_data(item):
    return isinstance(item, tuple)


def run_seqstop(cfg, strategy, max_steps=20000):
    import logging

    from mpservice.mpserver import _servlet, _worker
    for m in (_servlet, _worker):
        m.logger.setLevel(logging.ERROR)
    S = detsched.Sched(strategy, max_steps=max_steps)
    res = {'outcome': None, 'live_after_stop': None}
    delivered = []

    class STQ(vprims.VSimpleQueue):
        def __init__(self, name='stq'):
            super().__init__(name=name)
            self._rlock = vprims.VRLock()

    class RPipe:
        """a pipe too small for a result: put(data) completes only when a reader is waiting and the pipe is empty"""
        def __init__(self):
            self.name = 'q1'
            self.items = []
            self.waiting = 0
            self._rlock = vprims.VRLock()

        def put(self, item):
            S.yield_point('pipe.put')
            if is_data(item):
                S.block_until(lambda: self.waiting > 0 and not self.items, None, what='put(q1)')
            self.items.append(item)
            S.ev('q_put', 'q1', item)

        def get(self):
            S.yield_point('pipe.get')
            self.waiting += 1
            S.ev('q_wait', 'q1', None)
            try:
                S.block_until(lambda: len(self.items) > 0, None, what='get(q1)')
            finally:
                self.waiting -= 1
            item = self.items.pop(0)
            S.ev('q_get', 'q1', item)
            return item

        def empty(self):
            return not self.items

    def body():
        import threading

        class W(_worker.Worker):
            def call(self, x):
                S.yield_point('call')
                return x

        seq = _servlet.SequentialServlet(
            _servlet.ThreadServlet(W, num_threads=cfg['nw'], worker_name='SA'),
            _servlet.ThreadServlet(W, num_threads=1, worker_name='SB'))
        q0, q2 = STQ('q0'), STQ('q2')
        seq.start(q0, q2)
        q0.queue.extend((x, x) for x in cfg['pending'])       # the abandoned requests, already queued when stop() begins
        S.ev('marker', 'started', -1)

        def gather():
            while True:
                z = q2.get()
                if z is None:
                    return
                delivered.append(z[1])

        tg = threading.Thread(target=gather, name='gather')
        tg.start()
        seq.stop()
        tg.join()
        S.ev('marker', 'stopped', -2)
        res['live_after_stop'] = sorted(t.name for t in S.threads if t.state != 'done' and t.name != 'main')
        res['outcome'] = ['stopped']

    extra = [(_servlet, 'sleep', vprims.VClockNS.sleep), (_servlet, '_SimpleThreadQueue', RPipe),
             (_worker, 'threading', vprims.make_threading_ns()), (_worker, 'queue', vprims.make_queue_ns()),
             (_worker, 'perf_counter', vprims.VClockNS.perf_counter)]
    with inject.scheduled_world(extra):
        _, exc = S.run(body)
    if exc is not None:
        res['outcome'] = ['harness-error', repr(exc)]
    res.update(project(S))
    res.update({'verdict': S.verdict or 'ok', 'blocked': S.blocked_at_end, 'leaked': S.leaked, 'steps': S.steps,
                'error': S.error, 'decisions': S.decisions, 'delivered': delivered})
    return res


def project(S):
    events = []
    unknown = set()
    started = False

    def tid(name):
        if name == 'main':
            return 0
        if name.startswith('SA-'):
            return 10 + int(name.split('-')[1].split('#')[0])
        if name.startswith('SB-'):
            return 5
        if name == 'gather':
            return 6
        unknown.add(name)
        return 99

    def val(item):
        return V_END if item is None else item[1]

    b_waiting = False        # the second stage's worker may enter get() before the scenario's `started` marker
    for (t, op, obj, v) in S.log:
        if op == 'marker':
            if obj == 'started' and not started:
                started = True
                if b_waiting:
                    events.append([5, SOPS['q1_wait'], 0])
            continue
        if not started:
            if obj == 'q1' and t.startswith('SB-'):
                b_waiting = op == 'q_wait' or (b_waiting and op != 'q_get')
            continue
        T = tid(t)
        if op == 'join':
            name = str(obj)
            if name.startswith('SA-'):
                events.append([T, OPS['join'], int(name.split('-')[1].split('#')[0])])
            elif name.startswith('SB-'):
                events.append([T, OPS['join'], 100])
        elif obj in ('q0', 'q1', 'q2') and op in ('q_put', 'q_get'):
            events.append([T, SOPS[f'{obj}_{op[2:]}'], val(v)])
        elif obj == 'q1' and op == 'q_wait':
            events.append([T, SOPS['q1_wait'], 0])
        else:
            continue        # thread starts, the worker's private uid queue, ...
    return {'events': events, 'unknown_threads': sorted(unknown)}


def coq_case(r):
    from .core import clist, cnat, cz
    c = r['cfg']
    evs = clist(r['events'], lambda e: f'({cnat(e[0])}, {cnat(e[1])}, {cz(e[2])})')
    verdict = {'ok': 0, 'deadlock': 1}.get(r['verdict'], 2)
    return f"({cnat(c['nw'])}, {clist(c['pending'], cz)}, {evs}, {clist(r['delivered'], cz)}, {cnat(verdict)})"


N2_KEY = 'C11-N2-first-worker-forwards-end-marker-while-peers-work'


def oracle(r):
    if r['verdict'] == 'replay-divergence':
        return None
    cfg = r['cfg']
    key = N2_KEY if cfg['nw'] >= 2 else None
    if r['verdict'] == 'deadlock':
        return (f'stop() of the sequence never returns: blocked = {r["blocked"]}', key)
    if r['verdict'] != 'ok':
        return (f'run did not finish ({r["verdict"]}): {r["blocked"]}', key)
    if r['live_after_stop']:
        return (f'threads alive after stop(): {r["live_after_stop"]}', None)
    if sorted(r['delivered']) != sorted(cfg['pending']) and cfg['nw'] == 1:
        return (f'results delivered {r["delivered"]}, requests in flight were {cfg["pending"]}', None)
    return None


def make_strategy(rng):
    kind = rng.choice(['random', 'random', 'pct', 'greedy-flip'])
    if kind == 'random':
        return kind, detsched.RandomStrategy(rng)
    if kind == 'pct':
        return kind, detsched.PCTStrategy(rng, depth=rng.choice([1, 2, 3, 5]), horizon=rng.choice([30, 100, 300]))
    order = rng.choice([['main', 'SA', 'SB', 'gather'], ['SA', 'SB', 'gather', 'main'], ['SB', 'gather', 'SA-1', 'main', 'SA-0']])
    return kind, detsched.GreedyStrategy(order, rng, flip_p=rng.choice([0.05, 0.2]))


def part(n_quick, n_thorough):
    from . import core
    return core.Part('seqstop', 'harness.scen_seqstop', 'seqstop', n_quick, n_thorough, 'DriverSeqStop', coq_case, oracle,
                     lambda r: len(r['cfg']['pending']) >= 2, shard=150,
                     describe=lambda r: {k: r.get(k) for k in ('cfg', 'strategy', 'verdict', 'delivered', 'blocked', 'live_after_stop')})


def main(argv):
    import json
    what, seed, n, outp = argv[0], int(argv[1]), int(argv[2]), argv[3]
    rest = argv[4:]
    corpus = json.load(open(rest[0])) if rest else []
    rng = random.Random(seed)
    out = []
    for c in corpus:
        r = run_seqstop(c['cfg'], detsched.ReplayStrategy([tuple(d) for d in c['decisions']]))
        r['cfg'], r['strategy'] = c['cfg'], 'corpus'
        out.append(r)
    for i in range(n):
        cfg = gen_cfg(rng)
        kind, st = make_strategy(rng)
        r = run_seqstop(cfg, st)
        r['cfg'], r['strategy'] = cfg, kind
        out.append(r)
    json.dump(out, open(outp, 'w'))


if __name__ == '__main__':
    import sys
    main(sys.argv[1:])
