"""Scheduled scenarios for mpservice.queue.IterableQueue (thread flavour). Used by C17."""
from __future__ import annotations

import random

from . import detsched, inject, vprims
from .events import V_END

IOPS = {'q_put': 40, 'q_get': 41, 'spare_get': 42, 'spare_put': 43, 'applied_put': 44, 'applied_get': 45,
        'used_put': 46, 'used_get': 47, 'used_full': 48}


def gen_cfg(rng: random.Random):
    m = rng.choice([1, 1, 2, 2, 3])
    n = rng.choice([1, 2, 2, 3])
    rounds = rng.choice([1, 1, 2, 3])
    items = []
    k = 0
    for r in range(rounds):
        row = []
        for s in range(m):
            cnt = rng.choice([0, 1, 2, 3, 5])
            row.append(list(range(k, k + cnt)))
            k += cnt
        items.append(row)
    return {'nsup': m, 'ncons': n, 'qcap': rng.choice([0, 0, 1, 2, 3]), 'rounds': rounds, 'items': items}


def run_iterq(cfg, strategy, max_steps=40000):
    from mpservice import queue as mq
    S = detsched.Sched(strategy, max_steps=max_steps)
    m, n = cfg['nsup'], cfg['ncons']
    res = {'outcome': None, 'rounds': []}

    vqueue = vprims.make_queue_ns()
    tok_names = iter(['spare', 'applied', 'used'])

    class TokQueue(vprims.VQueue):
        def __init__(self, maxsize=0):
            super().__init__(maxsize, name=next(tok_names, 'tok-extra'))

    class MainQueue(vprims.VQueue):
        pass

    vqueue.Queue = vprims.VQueue       # isinstance(q, (queue.Queue, queue.SimpleQueue)) must accept the main queue

    def body():
        import threading
        mainq = vprims.VQueue(cfg['qcap'], name='q')
        # the three helper queues are created by IterableQueue.__init__ through mpservice.queue's `queue` global
        vqueue.Queue = TokQueue
        TokQueue.__bases__  # noqa
        # make isinstance(mainq, queue.Queue) true although Queue now names the token class
        try:
            iq = _make_iq(mq, mainq, m, vqueue, TokQueue)
        finally:
            pass
        for r in range(cfg['rounds']):
            got = [[] for _ in range(n)]
            errors = []

            def supplier(s, r=r):
                try:
                    for x in cfg['items'][r][s]:
                        iq.put(x)
                    iq.put_end()
                except detsched.Abort:
                    raise
                except BaseException as e:  # noqa
                    errors.append(f'supplier {s}: {e!r}'[:120])

            def consumer(c, got=got):
                try:
                    for z in iq:
                        got[c].append(z)
                except detsched.Abort:
                    raise
                except BaseException as e:  # noqa
                    errors.append(f'consumer {c}: {e!r}'[:120])

            ts = [threading.Thread(target=supplier, args=(s,), name=f'sup-{s}') for s in range(m)] + \
                 [threading.Thread(target=consumer, args=(c,), name=f'con-{c}') for c in range(n)]
            for t in ts:
                t.start()
            for t in ts:
                t.join()
            markers = sum(1 for z in mainq.queue if z is None)
            stray_items = [z for z in mainq.queue if z is not None]
            res['rounds'].append({'got': got, 'errors': errors, 'markers_left': markers, 'items_left': stray_items})
            if r + 1 < cfg['rounds']:
                try:
                    iq.renew()
                except detsched.Abort:
                    raise
                except BaseException as e:  # noqa
                    res['rounds'][-1]['renew_error'] = repr(e)[:120]
                    break
        res['outcome'] = ['finished']

    extra = [(mq, 'queue', vqueue), (mq, 'perf_counter', vprims.VClockNS.perf_counter),
             (mq, 'threading', vprims.make_threading_ns())]
    with inject.scheduled_world(extra):
        _, exc = S.run(body)
    if exc is not None:
        res['outcome'] = ['harness-error', repr(exc)]
    res.update(project(S))
    res.update({'verdict': S.verdict or 'ok', 'blocked': S.blocked_at_end, 'leaked': S.leaked, 'steps': S.steps,
                'error': S.error, 'decisions': S.decisions})
    return res


def _make_iq(mq, mainq, m, vqueue, TokQueue):
    """IterableQueue.__init__ tests `isinstance(q, (queue.Queue, queue.SimpleQueue))` and then creates its three
    helper queues with `queue.Queue(maxsize=...)`; both go through mpservice.queue's `queue` global. TokQueue and the
    main queue are both VQueue subclasses/instances, so give the namespace a class that the main queue is an instance of."""
    class Both(type(mainq)):
        pass
    # VQueue instance check: make TokQueue the factory but accept any VQueue in isinstance via a metaclass hook
    class Meta(type):
        def __instancecheck__(cls, inst):
            return isinstance(inst, vprims.VQueue)

        def __call__(cls, *a, **k):
            return TokQueue(*a, **k)

    class QueueFacade(metaclass=Meta):
        pass
    vqueue.Queue = QueueFacade
    vqueue.SimpleQueue = QueueFacade
    return mq.IterableQueue(mainq, num_suppliers=m)


def project(S):
    events = []
    unknown = set()

    def tid(name):
        if name == 'main':
            return 0
        if name.startswith('sup-'):
            return 10 + int(name.split('-')[1].split('#')[0])
        if name.startswith('con-'):
            return 50 + int(name.split('-')[1].split('#')[0])
        unknown.add(name)
        return 99

    for (t, op, obj, val) in S.log:
        T = tid(t)
        if op in ('start', 'join'):
            continue
        if obj == 'q' and op in ('q_put', 'q_get'):
            events.append([T, IOPS[op], V_END if val is None else val, 0])
        elif obj in ('spare', 'applied', 'used') and op in ('q_put', 'q_get'):
            if T == 0 and obj == 'spare' and op == 'q_put' and not any(e[0] != 0 for e in events):
                continue      # __init__ fills the spare tokens before any party runs
            events.append([T, IOPS[f"{obj}_{'put' if op == 'q_put' else 'get'}"], 1 if (obj, op) == ('spare', 'q_get') else 0, 0])
        elif obj == 'spare' and op == 'q_get_timeout':
            events.append([T, IOPS['spare_get'], 0, 1])
        elif obj == 'used' and op == 'q_isfull':
            events.append([T, IOPS['used_full'], int(bool(val)), 0])
        else:
            events.append([T, 98, 0, 0])
    return {'events': events, 'unknown_threads': sorted(unknown)}


def coq_case(r):
    from .core import cbool, clist, cnat, cz
    c = r['cfg']
    items = clist(c['items'], lambda row: clist(row, lambda l: clist(l, cz)))
    evs = clist(r['events'], lambda e: f'({cnat(e[0])}, {cnat(e[1])}, {cz(e[2])}, {cbool(e[3])})')
    verdict = 0 if r['verdict'] == 'ok' else 1
    left = clist([rd['markers_left'] for rd in r['rounds'][:-1]] if len(r['rounds']) > 1 else [], cnat)
    return f"({cnat(c['nsup'])}, {cnat(c['ncons'])}, {cnat(c['qcap'])}, {cnat(c['rounds'])}, {items}, {evs}, {cnat(verdict)}, {left})"


def make_strategy(rng):
    kind = rng.choice(['random', 'random', 'pct', 'greedy', 'greedy-flip'])
    if kind == 'random':
        return kind, detsched.RandomStrategy(rng)
    if kind == 'pct':
        return kind, detsched.PCTStrategy(rng, depth=rng.choice([1, 2, 3, 5]), horizon=rng.choice([50, 150, 400]))
    order = rng.choice([['sup', 'con', 'main'], ['con', 'sup', 'main'], ['con-1', 'con-0', 'sup'], ['sup-1', 'con', 'sup-0']])
    if kind == 'greedy':
        return kind, detsched.GreedyStrategy(order)
    return kind, detsched.GreedyStrategy(order, rng, flip_p=rng.choice([0.05, 0.2]))


def main(argv):
    import json
    what, seed, n, outp = argv[0], int(argv[1]), int(argv[2]), argv[3]
    rest = argv[4:]
    corpus = json.load(open(rest[0])) if rest else []
    rng = random.Random(seed)
    out = []
    for c in corpus:
        fn = run_stop if what == 'stop' else (run_early if what == 'early' else run_iterq)
        r = fn(c['cfg'], detsched.ReplayStrategy([tuple(d) for d in c['decisions']]))
        r['cfg'], r['strategy'] = c['cfg'], 'corpus'
        out.append(r)
    for i in range(n):
        if what == 'stop':
            cfg = gen_stop_cfg(rng)
            kind, st = make_strategy(rng)
            r = run_stop(cfg, st)
        elif what == 'early':
            cfg = gen_early_cfg(rng)
            kind, st = make_strategy(rng)
            r = run_early(cfg, st)
        else:
            cfg = gen_cfg(rng)
            kind, st = make_strategy(rng)
            r = run_iterq(cfg, st)
        r['cfg'], r['strategy'] = cfg, kind
        out.append(r)
    json.dump(out, open(outp, 'w'))




def gen_early_cfg(rng):
    m = rng.choice([1, 1, 2])
    rounds = rng.choice([2, 2, 3])
    items, k = [], 0
    for r in range(rounds):
        row = []
        for s_ in range(m):
            cnt = rng.choice([0, 1, 2, 3])
            row.append(list(range(k, k + cnt)))
            k += cnt
        items.append(row)
    return {'nsup': m, 'ncons': 1, 'qcap': rng.choice([0, 0, 2, 3]), 'rounds': rounds, 'items': items,
            'late_iter': [rng.random() < 0.6 for _ in range(rounds)], 'early_put': [rng.random() < 0.7 for _ in range(rounds)],
            # the suppliers of the next round start as soon as this round's suppliers have ended - before its consumer has
            # finished (the put_end docstring allows it); known finding C17-E on the unchanged tree
            'early_before': [rng.random() < 0.25 for _ in range(rounds)]}


def run_early(cfg, strategy, max_steps=40000):
    """rounds in which the suppliers of the next round may start putting before renew() (put_end(wait_for_renew=True)), and
    in which somebody iterates once more over a round that is already finished; one consumer per round"""
    from mpservice import queue as mq
    S = detsched.Sched(strategy, max_steps=max_steps)
    S.keep_log = False
    m = cfg['nsup']
    res = {'outcome': None, 'rounds': []}
    vqueue = vprims.make_queue_ns()
    tok_names = iter(['spare', 'applied', 'used'])

    class TokQueue(vprims.VQueue):
        def __init__(self, maxsize=0):
            super().__init__(maxsize, name=next(tok_names, 'tok-extra'))

    def body():
        import threading
        mainq = vprims.VQueue(cfg['qcap'], name='q')
        iq = _make_iq(mq, mainq, m, vqueue, TokQueue)
        errors_all = []
        sup_threads = None
        for r in range(cfg['rounds']):
            got, errors = [[]], []

            def supplier(s, r=r, errors=errors, wait=(r > 0)):
                try:
                    for x in cfg['items'][r][s]:
                        iq.put(x)
                    iq.put_end(wait_for_renew=wait)
                except detsched.Abort:
                    raise
                except BaseException as e:  # noqa
                    errors.append(f'supplier {s}: {e!r}'[:120])

            def consumer(got=got, errors=errors):
                try:
                    for z in iq:
                        got[0].append(z)
                except detsched.Abort:
                    raise
                except BaseException as e:  # noqa
                    errors.append(f'consumer: {e!r}'[:120])

            if sup_threads is None:
                sup_threads = [threading.Thread(target=supplier, args=(s,), name=f'sup-{s}-r{r}') for s in range(m)]
                for t in sup_threads:
                    t.start()
            errors2 = []

            def supplier2(s, r2=r + 1, errors2=errors2):
                try:
                    for x in cfg['items'][r2][s]:
                        iq.put(x)
                    iq.put_end(wait_for_renew=True)
                except detsched.Abort:
                    raise
                except BaseException as e:  # noqa
                    errors2.append(f'supplier {s}: {e!r}'[:120])

            next_threads = None
            if r + 1 < cfg['rounds'] and cfg.get('early_before', [False] * cfg['rounds'])[r]:
                # this round's suppliers have ended; the next round's start at once, before this round's consumer has finished
                for t in sup_threads:
                    t.join()
                next_threads = [threading.Thread(target=supplier2, args=(s,), name=f'sup-{s}-r{r + 1}') for s in range(m)]
                for t in next_threads:
                    t.start()
            tc = threading.Thread(target=consumer, name=f'con-r{r}')
            tc.start()
            tc.join()
            for t in sup_threads:
                t.join()
            sup_threads = next_threads
            info = {'got': got, 'errors': errors, 'late': None}
            if next_threads is not None:
                info['next_errors'] = errors2
            res['rounds'].append(info)
            if r + 1 < cfg['rounds']:
                if cfg['early_put'][r] and sup_threads is None:
                    # the suppliers of the next round start before renew(): their items wait in the queue
                    sup_threads = [threading.Thread(target=supplier2, args=(s,), name=f'sup-{s}-r{r + 1}') for s in range(m)]
                    info['next_errors'] = errors2
                    for t in sup_threads:
                        t.start()
                if cfg['late_iter'][r]:
                    try:
                        info['late'] = list(iq)          # one more iteration over the finished round
                    except detsched.Abort:
                        raise
                    except BaseException as e:  # noqa
                        info['late'] = ['error', repr(e)[:100]]
                try:
                    iq.renew()
                except detsched.Abort:
                    raise
                except BaseException as e:  # noqa
                    info['renew_error'] = repr(e)[:120]
                    break
        res['outcome'] = ['finished']

    extra = [(mq, 'queue', vqueue), (mq, 'perf_counter', vprims.VClockNS.perf_counter),
             (mq, 'threading', vprims.make_threading_ns())]
    with inject.scheduled_world(extra):
        _, exc = S.run(body)
    if exc is not None:
        res['outcome'] = ['harness-error', repr(exc)]
    res.update({'events': [], 'verdict': S.verdict or 'ok', 'blocked': S.blocked_at_end, 'leaked': S.leaked, 'steps': S.steps,
                'error': S.error, 'decisions': S.decisions})
    return res


def run_stop(cfg, strategy, max_steps=40000):
    """stop request: blocked gets/puts must raise StopRequested within the wait interval"""
    from mpservice import queue as mq
    from mpservice._common import StopRequested
    S = detsched.Sched(strategy, max_steps=max_steps)
    m, n = cfg['nsup'], cfg['ncons']
    res = {'outcome': None, 'ends': {}, 'stop_at': None}
    vqueue = vprims.make_queue_ns()
    tok_names = iter(['spare', 'applied', 'used'])

    class TokQueue(vprims.VQueue):
        def __init__(self, maxsize=0):
            super().__init__(maxsize, name=next(tok_names, 'tok-extra'))

    def body():
        import threading
        mainq = vprims.VQueue(cfg['qcap'], name='q')
        to_stop = vprims.VEvent(name='to_stop')

        class Meta(type):
            def __instancecheck__(cls, inst):
                return isinstance(inst, vprims.VQueue)

            def __call__(cls, *a, **k):
                return TokQueue(*a, **k)

        class QueueFacade(metaclass=Meta):
            pass
        vqueue.Queue = QueueFacade
        vqueue.SimpleQueue = QueueFacade
        # with `to_stop` the main queue is wrapped in a ResponsiveQueue, which is not a queue.Queue, so
        # IterableQueue.__init__ takes its multiprocessing.Queue branch for the three token queues even for
        # threads; those cannot run under the scheduler, so that name is bound to the virtual token queue too
        import types as _types
        real_mp = mq.multiprocessing
        mq.multiprocessing = _types.SimpleNamespace(Queue=TokQueue, SimpleQueue=real_mp.SimpleQueue)
        try:
            iq = mq.IterableQueue(mainq, num_suppliers=m, to_stop=to_stop)
        finally:
            mq.multiprocessing = real_mp

        def supplier(s):
            try:
                for x in cfg['items'][0][s]:
                    iq.put(x)
                if cfg.get('suppliers_end', True):
                    iq.put_end()
                res['ends'][f'sup-{s}'] = ['done', S.clock]
            except detsched.Abort:
                raise
            except StopRequested:
                res['ends'][f'sup-{s}'] = ['stop', S.clock]
            except BaseException as e:  # noqa
                res['ends'][f'sup-{s}'] = ['error', repr(e)[:80]]

        def consumer(c):
            try:
                for z in iq:
                    pass
                res['ends'][f'con-{c}'] = ['done', S.clock]
            except detsched.Abort:
                raise
            except StopRequested:
                res['ends'][f'con-{c}'] = ['stop', S.clock]
            except BaseException as e:  # noqa
                res['ends'][f'con-{c}'] = ['error', repr(e)[:80]]

        ts = [threading.Thread(target=supplier, args=(s,), name=f'sup-{s}') for s in range(m)] + \
             [threading.Thread(target=consumer, args=(c,), name=f'con-{c}') for c in range(n)]
        for t in ts:
            t.start()
        S.block_until(lambda: False, cfg['stop_after'], what='before-stop')
        res['stop_at'] = S.clock
        to_stop.set()
        for t in ts:
            t.join()
        res['outcome'] = ['finished']

    extra = [(mq, 'queue', vqueue), (mq, 'perf_counter', vprims.VClockNS.perf_counter),
             (mq, 'threading', vprims.make_threading_ns())]
    with inject.scheduled_world(extra):
        _, exc = S.run(body)
    if exc is not None:
        res['outcome'] = ['harness-error', repr(exc)]
    res.update({'events': [], 'verdict': S.verdict or 'ok', 'blocked': S.blocked_at_end, 'leaked': S.leaked,
                'steps': S.steps, 'error': S.error, 'decisions': S.decisions})
    return res


def gen_stop_cfg(rng):
    m = rng.choice([1, 2])
    return {'nsup': m, 'ncons': rng.choice([1, 2, 3]), 'qcap': rng.choice([0, 1, 2]), 'rounds': 1,
            'items': [[list(range(10 * s, 10 * s + rng.choice([0, 2, 6]))) for s in range(m)]],
            'suppliers_end': rng.random() < 0.5, 'stop_after': rng.choice([0.5, 2.5, 7.25])}


if __name__ == '__main__':
    import sys
    main(sys.argv[1:])
