"""Rebinding of mpservice *module globals* to the virtual primitives (DESIGN.md appendix A).
Nothing in the stdlib is touched except threading.Thread.start/join/is_alive (detsched)."""
from __future__ import annotations

import contextlib
import sys

from . import detsched, vprims

_MISSING = object()


@contextlib.contextmanager
def patched(*triples):
    """triples: (object, attribute name, new value); restored on exit."""
    saved = []
    try:
        for obj, name, val in triples:
            old = obj.__dict__.get(name, _MISSING) if hasattr(obj, '__dict__') else getattr(obj, name, _MISSING)
            saved.append((obj, name, old))
            setattr(obj, name, val)
        yield
    finally:
        for obj, name, old in reversed(saved):
            if old is _MISSING:
                try:
                    delattr(obj, name)
                except AttributeError:
                    pass
            else:
                setattr(obj, name, old)


def _quiet_handle_exception(exc):
    pass


@contextlib.contextmanager
def scheduled_world(extra=()):
    """Installs the thread patch and the common injections for the stream modules."""
    import mpservice._queues as _queues
    import mpservice.threading as mthreading
    from mpservice.streamer import _streamer

    vthreading = vprims.make_threading_ns()
    vconc = vprims.make_concurrent_ns()

    class LDeque(vprims.LoggingDeque):
        pass

    orig_empty = _queues.SingleLane.empty

    def empty(self):
        s = detsched.CURRENT
        if s is not None and s.managed():
            s.yield_point('sl.empty')
            r = orig_empty(self)
            s.ev('q_empty', '', r)
            return r
        return orig_empty(self)

    triples = [
        (_queues, 'threading', vthreading),
        (_queues, 'deque', LDeque),
        (_queues.SingleLane, 'empty', empty),
        (_streamer, 'threading', vthreading),
        (_streamer, 'concurrent', vconc),
        (_streamer, 'time', vprims.VClockNS),
        (_streamer, 'queue', vprims.make_queue_ns()),
        (_streamer, 'ThreadPoolExecutor', vprims.VThreadPool),
        (mthreading.Thread, 'handle_exception', staticmethod(_quiet_handle_exception)),
        *extra,
    ]
    old_hook = sys.unraisablehook

    def hook(u):
        if isinstance(u.exc_value, detsched.Abort):
            return
        old_hook(u)

    sys.unraisablehook = hook
    detsched.install_thread_patch()
    try:
        with patched(*triples):
            yield
    finally:
        detsched.uninstall_thread_patch()
        sys.unraisablehook = old_hook
