"""Real (unscheduled) runs of Stream.parmap with a thread pool, a process pool and an async worker function: what an
outside observer sees - the source being pulled, elements reaching the consumer, invocations of the worker function
beginning and ending, each stamped with the system-wide monotonic clock - is replayed in coq/Model/ParSpec.v.

A stamp is taken inside the interval it stands for (a pull when __next__ is about to return, a hand-over when the consumer
has the element, entry/exit inside the worker function), so the overlaps and the look-ahead measured are never more than the
true ones: the check cannot raise an alarm on a tree that respects the bounds."""
from __future__ import annotations

import itertools
import json
import random
import sys
import threading
import time

PULL, HAND, ENTER, EXIT = 0, 1, 2, 3
# equal stamps (practically never): order them in the way most favourable to the implementation
TIE = {EXIT: 0, HAND: 1, ENTER: 2, PULL: 3}


def gen_case(rng, idx):
    mode = ['thread', 'process', 'async'][idx % 3] if idx < 9 else rng.choice(['thread', 'thread', 'process', 'async', 'async'])
    conc = rng.choice([1, 2, 2, 3, 4])
    endless = rng.random() < 0.4
    n = rng.choice([12, 25, 40])
    return {'mode': mode, 'conc': conc, 'endless': endless, 'n': n,
            'stop_after': rng.choice([5, 15, 30]) if endless or rng.random() < 0.3 else None,
            'dur_ms': rng.choice([2, 8, 20]), 'src_ms': rng.choice([0, 0, 0, 3]), 'cons_ms': rng.choice([0, 0, 4, 15]),
            'burst': rng.random() < 0.3}     # the consumer pauses, then drains: the window fills, then empties at once


def run_case(c):
    from mpservice.streamer import Stream
    from harness import parreal_workers as W
    ev = []          # (stamp, kind); list.append is atomic
    alog = []

    def source():
        it = itertools.count() if c['endless'] else iter(range(c['n']))
        for x in it:
            if c['src_ms']:
                time.sleep(c['src_ms'] / 1000)
            ev.append((time.monotonic_ns(), PULL))
            yield x

    kw = {'dur': c['dur_ms'] / 1000}
    if c['mode'] == 'async':
        s = Stream(source()).parmap(W.awork, concurrency=c['conc'], log=alog, **kw)
    else:
        s = Stream(source()).parmap(W.work, executor=c['mode'], concurrency=c['conc'], **kw)
    out = []
    t_stop = None
    t0 = time.monotonic()
    it = iter(s)
    try:
        for y in it:
            ev.append((time.monotonic_ns(), HAND))
            out.append(y)
            if c['stop_after'] is not None and len(out) >= c['stop_after']:
                t_stop = time.monotonic_ns()
                break
            if c['burst'] and len(out) % 7 == 3:
                time.sleep(max(0.03, 6 * c['dur_ms'] / 1000))
            elif c['cons_ms']:
                time.sleep(c['cons_ms'] / 1000)
    finally:
        close = getattr(it, 'close', None)
        if close:
            close()
    elapsed = time.monotonic() - t0
    pids = set()
    for y in out:
        x, pid, a, b = y
        pids.add(pid)
        if b is not None:
            ev.append((a, ENTER))
            ev.append((b, EXIT))
    for a, b in alog:
        ev.append((a, ENTER))
        ev.append((b, EXIT))
    # look-ahead is a statement about the time the stream is being consumed: pulls after the consumer stopped are left out
    evs = sorted((t, TIE[k], k) for t, k in ev if not (k == PULL and t_stop is not None and t > t_stop))
    kinds = [k for _, _, k in evs]
    pulled = handed = running = pa = pr = 0
    for k in kinds:
        if k == PULL:
            pulled += 1
        elif k == HAND:
            handed += 1
        elif k == ENTER:
            running += 1
        else:
            running -= 1
        pa, pr = max(pa, pulled - handed), max(pr, running)
    want = list(range(len(out)))
    return {'events': kinds, 'peak_ahead': pa, 'peak_running': pr, 'values_in_order': [y[0] for y in out] == want,
            'n_out': len(out), 'complete': c['stop_after'] is not None or c['endless'] or len(out) == c['n'],
            'worker_pids': len(pids), 'elapsed': round(elapsed, 3)}


def oracle(c, o):
    if o.get('crash'):
        return 'harness/implementation crashed: ' + o['crash']
    cap = 2 * c['conc']
    if o['peak_ahead'] > cap + 3:
        return (f"parmap executor={c['mode']} concurrency={c['conc']}: {o['peak_ahead']} elements pulled from the source and not yet "
                f"handed to the consumer (> capacity+3 = {cap + 3})")
    if o['peak_running'] > c['conc']:
        return (f"parmap executor={c['mode']} concurrency={c['conc']}: {o['peak_running']} invocations of the worker function were "
                f"running at once ({o['worker_pids']} worker process(es) seen)")
    if not o['values_in_order'] or not o['complete']:
        return f"parmap executor={c['mode']}: the consumer received {o['n_out']} elements, in order: {o['values_in_order']}"
    return None


def coq_case(r):
    from harness.core import clist, cnat
    c, o = r['cfg'], r['obs']
    if o.get('crash'):
        return '(1, [9], 0, 0)'
    return f"({cnat(c['conc'])}, {clist(o['events'], cnat)}, {cnat(o['peak_ahead'])}, {cnat(o['peak_running'])})"


def part(n_quick, n_thorough):
    from harness import core
    return core.Part('real', 'harness.scen_parreal', 'gen', n_quick, n_thorough, 'DriverPar', coq_case,
                     lambda r: (r['oracle'], None) if r['oracle'] else None,
                     lambda r: (not r['obs'].get('crash')) and (r['obs']['peak_running'] >= r['cfg']['conc'] >= 2
                                                               or r['obs']['peak_ahead'] >= 2 * r['cfg']['conc'] + 2),
                     key=lambda r: json.dumps(r['cfg'], sort_keys=True),
                     describe=lambda r: {'cfg': r['cfg'], 'obs': {k: v for k, v in r['obs'].items() if k != 'events'},
                                         'events': len(r['obs'].get('events', []))},
                     shard=100)


PAR_TRUSTED = ('real-run part: Stream.parmap with executor=thread / process and with an async worker function runs unscheduled; pulls, '
               'hand-overs and worker entries/exits are stamped with CLOCK_MONOTONIC (shared by all processes of the machine), merged, '
               'and replayed in coq/Model/ParSpec.v (capacity = 2*concurrency); the stamps lie inside the intervals they stand for, so '
               'measured overlap and look-ahead never exceed the true ones')


def main(argv):
    what, seed, n, outp = argv[0], int(argv[1]), int(argv[2]), argv[3]
    rest = argv[4:]
    corpus = json.load(open(rest[0])) if rest else []
    rng = random.Random(seed)
    cases = [c['cfg'] for c in corpus] + [gen_case(rng, i) for i in range(n)]
    import gc
    gc.disable()      # see harness/props/c14.py (CPython 3.12.1 thread-start / finalizer deadlock)
    results = [None] * len(cases)
    lock = threading.Lock()
    nxt = [0]

    def worker():
        while True:
            with lock:
                i = nxt[0]
                nxt[0] += 1
            if i >= len(cases):
                return
            c = cases[i]
            try:
                o = run_case(c)
            except BaseException as e:  # noqa
                o = {'crash': repr(e)[:300]}
            results[i] = {'cfg': c, 'obs': o, 'oracle': oracle(c, o), 'strategy': c['mode'], 'verdict': 'ok'}

    ths = [threading.Thread(target=worker, daemon=True) for _ in range(4)]
    for t in ths:
        t.start()
    for t in ths:
        t.join()
    json.dump(results, open(outp, 'w'))
    sys.stdout.flush()
    import os
    os._exit(0)


if __name__ == '__main__':
    main(sys.argv[1:])
