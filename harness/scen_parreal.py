"""Real (unscheduled) runs of Stream.parmap with a thread pool, a process pool and an async worker function: what an
outside observer sees - the source being pulled, elements reaching the consumer, invocations of the worker function
beginning and ending, each stamped with the system-wide monotonic clock - is replayed in coq/Model/ParSpec.v.

A stamp is taken inside the interval it stands for (a pull when __next__ is about to return, a hand-over when the consumer
has the element, entry/exit inside the worker function), so the overlaps and the look-ahead measured are never more than the
true ones: the check cannot raise an alarm on a tree that respects the bounds."""
from __future__ import annotations

import itertools
import json
import random
import sys
import threading
import time

PULL, HAND, ENTER, EXIT = 0, 1, 2, 3
# equal stamps (practically never): order them in the way most favourable to the implementation
TIE = {EXIT: 0, HAND: 1, ENTER: 2, PULL: 3}


def gen_case(rng, idx):
    if idx < 10:
        # whatever the seed: every executor kind with busy workers (calls overlap) and with a slow consumer (the window fills)
        mode = ['thread', 'process', 'async', 'athread', 'aasync'][idx % 5]
        if idx < 5:
            return {'mode': mode, 'conc': 2, 'endless': True, 'n': 0, 'stop_after': 30, 'dur_ms': 20, 'src_ms': 0, 'cons_ms': 0, 'burst': False}
        return {'mode': mode, 'conc': 3, 'endless': False, 'n': 40, 'stop_after': None, 'dur_ms': 8, 'src_ms': 0, 'cons_ms': 15, 'burst': False}
    mode = rng.choice(['thread', 'thread', 'process', 'async', 'async', 'athread', 'aasync', 'aasync'])
    conc = rng.choice([1, 2, 2, 3, 4])
    endless = rng.random() < 0.4
    n = rng.choice([12, 25, 40])
    return {'mode': mode, 'conc': conc, 'endless': endless, 'n': n,
            'stop_after': rng.choice([5, 15, 30]) if endless or rng.random() < 0.3 else None,
            'dur_ms': rng.choice([2, 8, 20]), 'src_ms': rng.choice([0, 0, 0, 3]), 'cons_ms': rng.choice([0, 0, 4, 15]),
            'burst': rng.random() < 0.3}     # the consumer pauses, then drains: the window fills, then empties at once


def run_case(c):
    if c['mode'] in ('athread', 'aasync'):
        return _finish_case(c, *_run_case_aenv(c))
    return _finish_case(c, *_run_case_sync(c))


def _run_case_aenv(c):
    """the same observation on AsyncStream.parmap: async source, async consumer; the worker function is sync on a thread pool
    ('athread') or async on the consumer's own loop ('aasync')"""
    import asyncio
    from mpservice.streamer._streamer_async import AsyncStream
    from harness import parreal_workers as W
    ev, alog, out = [], [], []
    box = {'t_stop': None}

    async def source():
        it = itertools.count() if c['endless'] else iter(range(c['n']))
        for x in it:
            if c['src_ms']:
                await asyncio.sleep(c['src_ms'] / 1000)
            ev.append((time.monotonic_ns(), PULL))
            yield x

    async def main():
        kw = {'dur': c['dur_ms'] / 1000}
        if c['mode'] == 'aasync':
            s = AsyncStream(source()).parmap(W.awork, concurrency=c['conc'], log=alog, **kw)
        else:
            s = AsyncStream(source()).parmap(W.work, executor='thread', concurrency=c['conc'], **kw)
        it = s.__aiter__()
        try:
            async for y in it:
                ev.append((time.monotonic_ns(), HAND))
                out.append(y)
                if c['stop_after'] is not None and len(out) >= c['stop_after']:
                    box['t_stop'] = time.monotonic_ns()
                    break
                if c['burst'] and len(out) % 7 == 3:
                    await asyncio.sleep(max(0.03, 6 * c['dur_ms'] / 1000))
                elif c['cons_ms']:
                    await asyncio.sleep(c['cons_ms'] / 1000)
        finally:
            await it.aclose()

    t0 = time.monotonic()
    asyncio.run(main())
    return ev, alog, out, box['t_stop'], time.monotonic() - t0


def _run_case_sync(c):
    from mpservice.streamer import Stream
    from harness import parreal_workers as W
    ev = []          # (stamp, kind); list.append is atomic
    alog = []

    def source():
        it = itertools.count() if c['endless'] else iter(range(c['n']))
        for x in it:
            if c['src_ms']:
                time.sleep(c['src_ms'] / 1000)
            ev.append((time.monotonic_ns(), PULL))
            yield x

    kw = {'dur': c['dur_ms'] / 1000}
    if c['mode'] == 'async':
        s = Stream(source()).parmap(W.awork, concurrency=c['conc'], log=alog, **kw)
    else:
        s = Stream(source()).parmap(W.work, executor=c['mode'], concurrency=c['conc'], **kw)
    out = []
    t_stop = None
    t0 = time.monotonic()
    it = iter(s)
    try:
        for y in it:
            ev.append((time.monotonic_ns(), HAND))
            out.append(y)
            if c['stop_after'] is not None and len(out) >= c['stop_after']:
                t_stop = time.monotonic_ns()
                break
            if c['burst'] and len(out) % 7 == 3:
                time.sleep(max(0.03, 6 * c['dur_ms'] / 1000))
            elif c['cons_ms']:
                time.sleep(c['cons_ms'] / 1000)
    finally:
        close = getattr(it, 'close', None)
        if close:
            close()
    return ev, alog, out, t_stop, time.monotonic() - t0


def _finish_case(c, ev, alog, out, t_stop, elapsed):
    pids = set()
    for y in out:
        x, pid, a, b = y
        pids.add(pid)
        if b is not None:
            ev.append((a, ENTER))
            ev.append((b, EXIT))
    for a, b in alog:
        ev.append((a, ENTER))
        ev.append((b, EXIT))
    # look-ahead is a statement about the time the stream is being consumed: pulls after the consumer stopped are left out
    evs = sorted((t, TIE[k], k) for t, k in ev if not (k == PULL and t_stop is not None and t > t_stop))
    kinds = [k for _, _, k in evs]
    pulled = handed = running = pa = pr = 0
    for k in kinds:
        if k == PULL:
            pulled += 1
        elif k == HAND:
            handed += 1
        elif k == ENTER:
            running += 1
        else:
            running -= 1
        pa, pr = max(pa, pulled - handed), max(pr, running)
    want = list(range(len(out)))
    return {'events': kinds, 'peak_ahead': pa, 'peak_running': pr, 'values_in_order': [y[0] for y in out] == want,
            'n_out': len(out), 'complete': c['stop_after'] is not None or c['endless'] or len(out) == c['n'],
            'worker_pids': len(pids), 'elapsed': round(elapsed, 3)}


def oracle(c, o):
    if o.get('crash'):
        return 'harness/implementation crashed: ' + o['crash']
    cap = 2 * c['conc']
    if o['peak_ahead'] > cap + 3:
        return (f"parmap executor={c['mode']} concurrency={c['conc']}: {o['peak_ahead']} elements pulled from the source and not yet "
                f"handed to the consumer (> capacity+3 = {cap + 3})")
    if o['peak_running'] > c['conc']:
        return (f"parmap executor={c['mode']} concurrency={c['conc']}: {o['peak_running']} invocations of the worker function were "
                f"running at once ({o['worker_pids']} worker process(es) seen)")
    if not o['values_in_order'] or not o['complete']:
        return f"parmap executor={c['mode']}: the consumer received {o['n_out']} elements, in order: {o['values_in_order']}"
    return None


def coq_case(r):
    from harness.core import clist, cnat
    c, o = r['cfg'], r['obs']
    if o.get('crash'):
        return '(1, [9], 0, 0)'
    return f"({cnat(c['conc'])}, {clist(o['events'], cnat)}, {cnat(o['peak_ahead'])}, {cnat(o['peak_running'])})"


def part(n_quick, n_thorough):
    from harness import core
    return core.Part('real', 'harness.scen_parreal', 'gen', n_quick, n_thorough, 'DriverPar', coq_case,
                     lambda r: (r['oracle'], None) if r['oracle'] else None,
                     lambda r: (not r['obs'].get('crash')) and (r['obs']['peak_running'] >= r['cfg']['conc'] >= 2
                                                               or r['obs']['peak_ahead'] >= 2 * r['cfg']['conc'] + 2),
                     key=lambda r: json.dumps(r['cfg'], sort_keys=True),
                     describe=lambda r: {'cfg': r['cfg'], 'obs': {k: v for k, v in r['obs'].items() if k != 'events'},
                                         'events': len(r['obs'].get('events', []))},
                     shard=100)


# ---------------------------------------------------------------------------------------------
# order mode: what the consumer receives and how the iteration ends (C01, C05)
# ---------------------------------------------------------------------------------------------

PRE_OFFSET = 100
RUN_LIMIT = 60.0


def core_order_cases():
    """every executor kind meets every feature at least once, whatever the seed"""
    out = []
    base = {'has_pre': False, 'pre_fail': {}, 'call_fail': {}, 'return_x': False, 'return_exc': False, 'stop_after': None,
            'scale': 2, 'cons_ms': 0}
    for mode in ('thread', 'process', 'async', 'athread', 'aasync'):
        d12 = [['d', i] for i in range(12)]
        for extra in (
            {'conc': 2, 'src': d12, 'call_fail': {3: 21, 7: 23}, 'return_exc': True},
            {'conc': 2, 'src': d12, 'call_fail': {3: 23, 7: 22}},
            {'conc': 3, 'src': d12, 'has_pre': True, 'pre_fail': {2: 13}, 'call_fail': {5: 20}, 'return_exc': True, 'return_x': True},
            {'conc': 3, 'src': d12[:6] + [['e', 2]]},
            {'conc': 4, 'src': [['d', i] for i in range(30)], 'stop_after': 5, 'scale': 3, 'return_x': True},
        ):
            c = dict(base, mode=mode, iters=2, **extra)
            c['cap'] = 2 * c['conc']
            out.append(c)
        if mode != 'process':
            # a worker raising StopIteration, delivered as a value (return_exceptions)
            out.append(dict(base, mode=mode, iters=1, conc=2, cap=4, src=[['d', i] for i in range(8)], call_fail={3: 24}, return_exc=True))
        if mode in ('athread', 'aasync'):
            for how in ('cancel', 'gc'):
                out.append(dict(base, mode=mode, iters=2, conc=2, cap=4, src=[['d', i] for i in range(40)], stop_after=4, stop_kind=how))
    return out


def gen_order_case(rng, idx):
    c = _gen_order_case(rng, idx)
    if c['mode'] == 'process':
        # CPython's process pool itself tests the worker's exception by truth value (concurrent/futures/process.py,
        # _process_result_item): a falsy exception raised in a pool process is lost before mpservice sees it
        c['call_fail'] = {k: (22 if v % 4 == 3 else v) for k, v in c['call_fail'].items()}
    return c


def _gen_order_case(rng, idx):
    core = core_order_cases()
    if idx < len(core):
        return core[idx]
    mode = rng.choice(['thread', 'process', 'async', 'async', 'athread', 'aasync', 'aasync'])
    conc = rng.choice([1, 2, 2, 3, 4])
    n = rng.choice([0, 1, 2, 5, 9, 14, 20, 30])
    table = [['d', i] for i in range(n)]
    if rng.random() < 0.2:
        table.insert(rng.randrange(0, n + 1), ['e', rng.randrange(1, 4)])
        table = table[:[k for k, _ in table].index('e') + 1]
    has_pre = rng.random() < 0.4
    pre_fail, call_fail = {}, {}
    density = rng.choice([0, 0.03, 0.03, 0.12])
    for i in range(n):
        if has_pre and rng.random() < density:
            pre_fail[i] = rng.randrange(10, 14)
        elif rng.random() < density:
            call_fail[i] = rng.randrange(20, 24)
    return {'mode': mode, 'conc': conc, 'cap': 2 * conc, 'src': table, 'has_pre': has_pre, 'pre_fail': pre_fail, 'call_fail': call_fail,
            'return_x': rng.random() < 0.4, 'return_exc': rng.random() < 0.5,
            'stop_after': rng.choice([None, None, None, 1, 2, 3, 5, 8]), 'scale': rng.choice([0, 1, 3]),
            'cons_ms': rng.choice([0, 0, 2, 6]), 'iters': rng.choice([1, 2, 2, 3]),
            'stop_kind': rng.choice(['break', 'break', 'cancel', 'gc']) if mode in ('athread', 'aasync') else None}


_cid = itertools.count()


def run_order_case(c):
    """-> one observation per iteration of the same Stream object (c['iters'] of them)"""
    from mpservice.streamer import Stream
    from harness import parreal_workers as W
    from harness.events import v_exc
    pf = {int(k): v for k, v in c['pre_fail'].items()}
    cf = {int(k): v for k, v in c['call_fail'].items()}
    off = PRE_OFFSET if c['has_pre'] else 0
    cid = next(_cid)

    class Source:          # can be iterated again, like a list
        def __iter__(self):
            for kind, v in c['src']:
                if kind == 'd':
                    yield v
                else:
                    raise W.SrcErr(v)

    def pre(x):
        if x in pf:
            raise (W.FalsyPreErr if pf[x] % 4 == 1 else W.PreErr)(pf[x])
        return x + PRE_OFFSET

    kw = {'fail': cf, 'off': off, 'scale': c['scale'], 'return_x': c['return_x'], 'return_exceptions': c['return_exc'],
          'cid': None if c['mode'] == 'process' else cid, 'to_stop': 0, 'loop': 0}
    kw['tasks' if c['mode'] in ('async', 'aasync') else 'q'] = 0
    if c['has_pre']:
        kw['preprocessor'] = pre
    if c['mode'] in ('athread', 'aasync'):
        return _run_order_aenv(c, kw, cid, pf, cf)
    if c['mode'] == 'async':
        s = Stream(Source()).parmap(W.af, concurrency=c['conc'], **kw)
    else:
        s = Stream(Source()).parmap(W.f, executor=c['mode'], concurrency=c['conc'], **kw)

    def code(y):
        if isinstance(y, RuntimeError) and isinstance(y.__cause__, StopIteration):
            y = y.__cause__
        if isinstance(y, BaseException):
            return v_exc(y.code) if hasattr(y, 'code') and isinstance(y.code, int) else -999999
        return y if isinstance(y, int) else -999998        # (None: a failure that was swallowed)

    def body(res):
        out = []
        outcome = None
        it = iter(s)
        try:
            try:
                for y in it:
                    if c['return_x']:
                        x, v = y
                        out.append(x * 1000000 + code(v) + 500000)
                    else:
                        out.append(code(y))
                    if c['stop_after'] is not None and len(out) >= c['stop_after']:
                        outcome = ['broke']
                        break
                    if c['cons_ms']:
                        time.sleep(c['cons_ms'] / 1000)
                else:
                    outcome = ['completed']
            except Exception as e:  # noqa
                outcome = ['raised', e.code] if isinstance(getattr(e, 'code', None), int) else ['other', repr(e)[:200]]
        finally:
            close = getattr(it, 'close', None)
            if close:
                close()
        res['received'], res['outcome'] = out, outcome

    obs = []
    for k in range(c.get('iters', 1)):
        res = {}
        W.CALLS.pop(cid, None)
        th = threading.Thread(target=body, args=(res,), daemon=True)
        t0 = time.monotonic()
        th.start()
        th.join(RUN_LIMIT)
        if th.is_alive():
            obs.append({'hung': True, 'received': None, 'outcome': None, 'elapsed': RUN_LIMIT})
            break
        res['elapsed'] = round(time.monotonic() - t0, 3)
        res['calls'] = None if c['mode'] == 'process' else list(W.CALLS.get(cid, []))
        obs.append(res)
    W.CALLS.pop(cid, None)
    return obs


def _run_order_aenv(c, kw, cid, pf, cf):
    """AsyncStream.parmap in an async environment: async source, async consumer that completes, breaks (and closes), is
    cancelled while waiting inside the stream, or breaks and drops the iterator (closed by the loop's asyncgen hook)"""
    import asyncio
    import gc
    from mpservice.streamer._streamer_async import AsyncStream
    from harness import parreal_workers as W
    from harness.events import v_exc

    class Source:
        def __aiter__(self):
            return self.gen()

        async def gen(self):
            for kind, v in c['src']:
                if kind == 'd':
                    if v % 3 == 0:
                        await asyncio.sleep(0)
                    yield v
                else:
                    raise W.SrcErr(v)

    pname = f'pm{cid}x'
    if c['mode'] == 'aasync':
        s = AsyncStream(Source()).parmap(W.af, concurrency=c['conc'], parmapper_name=pname, **kw)
    else:
        s = AsyncStream(Source()).parmap(W.f, executor='thread', concurrency=c['conc'], parmapper_name=pname, **kw)

    def code(y):
        if isinstance(y, RuntimeError) and isinstance(y.__cause__, StopIteration):
            y = y.__cause__            # an asyncio future cannot carry StopIteration: delivered chained to a RuntimeError
        if isinstance(y, BaseException):
            return v_exc(y.code) if hasattr(y, 'code') and isinstance(y.code, int) else -999999
        return y if isinstance(y, int) else -999998

    how = c.get('stop_kind') or 'break'

    async def consume(res):
        out = []
        res['received'] = out
        me = asyncio.current_task()
        it = s.__aiter__()
        closed = False
        try:
            try:
                async for y in it:
                    if c['return_x']:
                        x, v = y
                        out.append(x * 1000000 + code(v) + 500000)
                    else:
                        out.append(code(y))
                    if c['stop_after'] is not None and len(out) >= c['stop_after']:
                        if how == 'cancel':
                            asyncio.get_running_loop().call_soon(me.cancel)     # arrives while waiting inside the stream
                            continue
                        res['outcome'] = ['broke']
                        break
                    if c['cons_ms']:
                        await asyncio.sleep(c['cons_ms'] / 1000)
                else:
                    res['outcome'] = ['completed']
            except asyncio.CancelledError:
                res['outcome'] = ['broke']        # stopped from outside: for the model, a consumer that stops here
                res['cancelled_after'] = len(out)
            except Exception as e:  # noqa
                res['outcome'] = ['raised', e.code] if isinstance(getattr(e, 'code', None), int) else ['other', repr(e)[:200]]
        finally:
            if how == 'gc' and res.get('outcome') == ['broke']:
                del it
                gc.collect()
                await asyncio.sleep(0.05)          # the loop's asyncgen finalizer hook closes it
            else:
                await it.aclose()

    async def main(res):
        t = asyncio.ensure_future(consume(res))
        try:
            await asyncio.wait_for(asyncio.shield(t), RUN_LIMIT)
        except asyncio.TimeoutError:
            res['hung'] = True
            return
        except asyncio.CancelledError:
            pass
        await asyncio.wait([t])
        await asyncio.sleep(0.3)                  # grace for helpers to go away
        res['tasks_left'] = sorted(x.get_name() for x in asyncio.all_tasks() if x is not asyncio.current_task())
        res['threads_left'] = sorted(x.name for x in threading.enumerate() if x.is_alive() and x.name.startswith(pname))

    obs = []
    for k in range(c.get('iters', 1)):
        res = {}
        W.CALLS.pop(cid, None)
        t0 = time.monotonic()
        box = {}

        def runner():
            try:
                asyncio.run(main(res))
            except BaseException as e:  # noqa
                box['crash'] = repr(e)[:300]

        th = threading.Thread(target=runner, daemon=True)
        th.start()
        th.join(RUN_LIMIT + 30)
        if th.is_alive() or res.get('hung'):
            obs.append({'hung': True, 'received': res.get('received'), 'outcome': None, 'elapsed': RUN_LIMIT})
            break
        if box.get('crash'):
            obs.append({'crash': box['crash']})
            break
        res['elapsed'] = round(time.monotonic() - t0, 3)
        res['calls'] = list(W.CALLS.get(cid, []))
        obs.append(res)
    W.CALLS.pop(cid, None)
    return obs


def order_oracle(r):
    from harness.props.c01 import expected
    c, o = r['cfg'], r['obs']
    if o.get('crash'):
        return ('harness/implementation crashed: ' + o['crash'], None)
    if o.get('hung'):
        return (f"parmap executor={c['mode']}: the iteration (including closing the iterator) had not ended after {RUN_LIMIT:.0f} s", None)
    exp, fin = expected(c)
    got, oc = o['received'], o['outcome']
    tag = f"parmap executor={c['mode']} concurrency={c['conc']}" + (f" (iteration {c['report_iter'] + 1} of the same stream object)" if c.get('report_iter') else '')
    if oc[0] == 'other':
        return (f'{tag}: the iteration raised {oc[1]}', None)
    sa = c['stop_after']
    if c.get('stop_kind') == 'cancel' and 'cancelled_after' not in o:
        sa = None      # the cancellation found nothing suspended inside the stream: the iteration ran to its end
    if 'cancelled_after' in o:
        sa = o['cancelled_after']          # cancelled from outside at some point after the k-th output
        if sa < (c['stop_after'] or 0):
            return (f'{tag}: cancelled after {c["stop_after"]} outputs but only {sa} are on record', None)
    if sa is not None and (len(exp) >= sa if 'cancelled_after' not in o else True):
        exp, fin = exp[:sa], ['broke']
    if o.get('tasks_left') or o.get('threads_left'):
        return (f"{tag}: {c.get('stop_kind') or 'the'} consumer ended with {oc}; 0.3 s later still alive: tasks {o.get('tasks_left')}, "
                f"threads {o.get('threads_left')}", None)
    if got != exp:
        return (f'{tag}: outputs are not the in-order results of the inputs: received {got}, expected {exp}', None)
    if oc != fin:
        return (f'{tag}: the iteration ended with {oc} after {len(got)} outputs, expected {fin}', None)
    calls = o.get('calls')
    if calls is not None:
        if len(set(calls)) != len(calls):
            return (f'{tag}: the worker function was called more than once for an input: calls {sorted(calls)}', None)
        pfk = {int(k) for k in c['pre_fail']}
        data = [v for k, v in c['src'] if k == 'd']
        if pfk & set(calls) or set(calls) - set(data):
            return (f'{tag}: the worker function was called for {sorted((pfk & set(calls)) | (set(calls) - set(data)))} (rejected by the preprocessor, or never an input)', None)
        if oc == ['completed'] and sorted(calls) != sorted(set(data) - pfk):
            return (f'{tag}: the iteration completed but the worker function received {sorted(calls)} of the inputs {sorted(set(data) - pfk)}', None)
    return None


def coq_order_case(r):
    from harness.core import cbool, clist, cnat, copt, cz
    from harness.scen_stream import coq_src, outcome_code
    c, o = r['cfg'], r['obs']
    if o.get('crash') or o.get('hung') or o['outcome'][0] == 'other':
        return '(1%nat, [], false, [], [], (false, false), None, [7%Z], 0%Z)'      # judged by the oracle
    pf = clist(sorted((int(k), v) for k, v in c['pre_fail'].items()), lambda kv: f'({cz(kv[0])}, {cz(kv[1])})')
    cf = clist(sorted((int(k), v) for k, v in c['call_fail'].items()), lambda kv: f'({cz(kv[0])}, {cz(kv[1])})')
    sa = o['cancelled_after'] if 'cancelled_after' in o else (None if c.get('stop_kind') == 'cancel' else c['stop_after'])
    return (f"({cnat(c['conc'])}, {coq_src(c['src'])}, {cbool(c['has_pre'])}, {pf}, {cf}, ({cbool(c['return_x'])}, {cbool(c['return_exc'])}), "
            f"{copt(sa, cnat)}, {clist(o['received'], cz)}, {cz(outcome_code(o['outcome']))})")


def order_part(n_quick, n_thorough):
    from harness import core
    return core.Part('real', 'harness.scen_parreal', 'order', n_quick, n_thorough, 'DriverFifoReal', coq_order_case, order_oracle,
                     lambda r: bool(r['obs'].get('received')) and len(r['obs']['received']) >= 2 and r['cfg']['conc'] >= 2,
                     key=lambda r: json.dumps(r['cfg'], sort_keys=True),
                     describe=lambda r: {'cfg': r['cfg'], 'obs': r['obs']}, shard=150)


ORDER_TRUSTED = ('real-run part: Stream.parmap with executor=thread / process and with an async worker function runs unscheduled (random '
                 'per-element durations scramble the completion order); what the consumer received and how the iteration ended is compared '
                 'with the result of coq/Model/FifoStream.v under a fair schedule (the theorems make that result schedule-independent)')


PAR_TRUSTED = ('real-run part: Stream.parmap with executor=thread / process and with an async worker function runs unscheduled; pulls, '
               'hand-overs and worker entries/exits are stamped with CLOCK_MONOTONIC (shared by all processes of the machine), merged, '
               'and replayed in coq/Model/ParSpec.v (capacity = 2*concurrency); the stamps lie inside the intervals they stand for, so '
               'measured overlap and look-ahead never exceed the true ones')


def main(argv):
    what, seed, n, outp = argv[0], int(argv[1]), int(argv[2]), argv[3]
    rest = argv[4:]
    corpus = json.load(open(rest[0])) if rest else []
    rng = random.Random(seed)
    gen, runner, orc = (gen_case, run_case, oracle) if what == 'gen' else (gen_order_case, run_order_case, lambda c, o: None)
    cases = [c['cfg'] for c in corpus] + [gen(rng, i) for i in range(n)]
    import gc
    gc.disable()      # see harness/props/c14.py (CPython 3.12.1 thread-start / finalizer deadlock)
    results = [None] * len(cases)
    lock = threading.Lock()
    nxt = [0]

    def worker():
        while True:
            with lock:
                i = nxt[0]
                nxt[0] += 1
            if i >= len(cases):
                return
            c = cases[i]
            try:
                o = runner(c)
            except BaseException as e:  # noqa
                o = {'crash': repr(e)[:300]}
            if what == 'gen':
                results[i] = [{'cfg': c, 'obs': o, 'oracle': orc(c, o), 'strategy': c['mode'], 'verdict': 'ok'}]
            else:
                # one record per iteration of the stream object; a replayed record runs up to its own iteration only
                obs = o if isinstance(o, list) else [o]
                only = c.get('report_iter')
                results[i] = [{'cfg': dict(c, report_iter=k, iters=k + 1), 'obs': ob, 'oracle': None,
                               'strategy': c['mode'] + ('' if k == 0 else '-again'), 'verdict': 'ok'}
                              for k, ob in enumerate(obs) if only is None or k == only or k == len(obs) - 1 and 'crash' in ob]

    ths = [threading.Thread(target=worker, daemon=True) for _ in range(4)]
    for t in ths:
        t.start()
    for t in ths:
        t.join()
    json.dump([r for rs in results for r in rs], open(outp, 'w'))
    sys.stdout.flush()
    import os
    os._exit(0)


if __name__ == '__main__':
    main(sys.argv[1:])
