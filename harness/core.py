"""Shared plumbing for the per-property checks: Coq build/audit/eval, evidence, known findings.

Everything that touches the implementation runs in a child process started with
PYTHONPATH=/repo/src (so the *current working tree* is what is exercised), a fixed
PYTHONHASHSEED and the hook guard MPSERVICE_VERIF=1.
"""
from __future__ import annotations

import fcntl
import hashlib
import json
import os
import re
import subprocess
import sys
import time
from pathlib import Path

VERIF = Path(__file__).resolve().parent.parent
COQ = VERIF / 'coq'
REPLAY = COQ / 'Replay'
REPO = Path(os.environ.get('VERIF_REPO', '/repo'))
PY = '/venv/bin/python'
GUARD = 'MPSERVICE_VERIF'

STD_AXIOMS_ALLOWED: set[str] = set()   # the development is axiom-free; see DESIGN.md section 6

FORBIDDEN = re.compile(
    r'\b(Admitted|admit|Axiom|Axioms|Parameter|Parameters|Conjecture|Conjectures|'
    r'Admit Obligations|bypass_check|Unset Guard Checking|Unset Positivity Checking|'
    r'Unset Universe Checking|Hypothesis|Hypotheses|Variable|Variables)\b')


def impl_env(extra: dict | None = None) -> dict:
    env = dict(os.environ)
    env['PYTHONPATH'] = f'{REPO}/src:{VERIF}'
    env['PYTHONHASHSEED'] = '0'
    env[GUARD] = '1'
    env['PYTHONDONTWRITEBYTECODE'] = '1'
    if extra:
        env.update(extra)
    return env


def run_impl(module: str, args: list[str], timeout: float = 600, extra_env=None):
    """Run `python -m module args...` against /repo's working tree. Returns (rc, stdout, stderr)."""
    try:
        p = subprocess.run([PY, '-m', module, *args], cwd=str(VERIF), env=impl_env(extra_env),
                           capture_output=True, text=True, timeout=timeout)
        return p.returncode, p.stdout, p.stderr
    except subprocess.TimeoutExpired as e:
        return 124, (e.stdout or b'').decode() if isinstance(e.stdout, bytes) else (e.stdout or ''), 'TIMEOUT'


# ---------------------------------------------------------------------------------------------
# Coq
# ---------------------------------------------------------------------------------------------

class CoqLock:
    def __enter__(self):
        self.f = open(VERIF / '.build.lock', 'w')
        fcntl.flock(self.f, fcntl.LOCK_EX)
        return self

    def __exit__(self, *a):
        fcntl.flock(self.f, fcntl.LOCK_UN)
        self.f.close()


def coq_sources() -> list[str]:
    out = []
    for d in ('Lib', 'Model', 'Proof', 'Props', 'Driver'):
        out += sorted(str(p.relative_to(COQ)) for p in (COQ / d).glob('*.v'))
    return out


def coq_configure():
    """(Re)generate _CoqProject and the Makefile when the set of source files changed."""
    srcs = coq_sources()
    text = '-Q . MpV\n' + '\n'.join(srcs) + '\n'
    proj = COQ / '_CoqProject'
    if not proj.exists() or proj.read_text() != text or not (COQ / 'Makefile').exists():
        proj.write_text(text)
        subprocess.run(['coq_makefile', '-f', '_CoqProject', '-o', 'Makefile'], cwd=str(COQ),
                       check=True, capture_output=True)


def coq_make(targets: list[str] | None = None, jobs: int = 8, timeout: int = 1500):
    """Full .vo build of `targets` (default: everything). Returns (ok, log, cmd)."""
    with CoqLock():
        coq_configure()
        cmd = ['timeout', str(timeout), 'make', f'-j{jobs}'] + (targets or [])
        p = subprocess.run(cmd, cwd=str(COQ), capture_output=True, text=True)
        return p.returncode == 0, p.stdout + p.stderr, 'cd coq && ' + ' '.join(cmd)


def coqc_file(path: Path, timeout: int = 600):
    cmd = ['timeout', str(timeout), 'coqc', '-Q', '.', 'MpV', str(path.relative_to(COQ))]
    p = subprocess.run(cmd, cwd=str(COQ), capture_output=True, text=True)
    return p.returncode, p.stdout, p.stderr


def theorem_names(prop: str) -> list[str]:
    src = (COQ / 'Props' / f'{prop}.v').read_text()
    return re.findall(r'^\s*Theorem\s+([A-Za-z0-9_\']+)', src, flags=re.M)


def audit(prop: str) -> dict:
    """Build Props/<prop>.vo, print the assumptions of each theorem in it with a fresh coqc run,
    and grep the whole development for forbidden declarations."""
    res = {'obligations': 0, 'discharged': 0, 'theorems': [], 'assumptions': {}, 'problems': [],
           'checker_cmd': ''}
    names = theorem_names(prop)
    res['obligations'] = len(names)
    res['theorems'] = names
    ok, log, cmd = coq_make([f'Props/{prop}.vo'])
    res['checker_cmd'] = cmd + f' ; coqc -Q . MpV Replay/audit_{prop}.v (Print Assumptions for each theorem)'
    if not ok:
        res['problems'].append('coq build failed: ' + log[-2000:])
        return res
    # forbidden words, outside comments
    for rel in coq_sources():
        text = strip_coq_comments((COQ / rel).read_text())
        for m in FORBIDDEN.finditer(text):
            word = m.group(1)
            if word in ('Variable', 'Variables', 'Hypothesis', 'Hypotheses') and in_section(text, m.start()):
                continue
            res['problems'].append(f'forbidden declaration {word!r} in {rel}')
    af = REPLAY / f'audit_{prop}.v'
    af.write_text(f'From MpV Require Import Props.{prop}.\n' +
                  ''.join(f'Goal True. idtac "@@ {n}". exact I. Qed.\nPrint Assumptions {n}.\n' for n in names))
    with CoqLock():
        rc, out, err = coqc_file(af)
    if rc != 0:
        res['problems'].append('audit file failed: ' + (out + err)[-1500:])
        return res
    cur = None
    for line in out.splitlines():
        if line.startswith('@@ '):
            cur = line[3:].strip()
            res['assumptions'][cur] = []
        elif cur is not None and line.strip():
            res['assumptions'][cur].append(line.strip())
    for n in names:
        a = res['assumptions'].get(n)
        if a is None:
            res['problems'].append(f'no assumptions output for {n}')
            continue
        if a == ['Closed under the global context']:
            res['discharged'] += 1
            continue
        axs = [l.split(':')[0].strip() for l in a if ':' in l and not l.startswith('Axioms')]
        bad = [x for x in axs if x not in STD_AXIOMS_ALLOWED]
        if bad:
            res['problems'].append(f'{n} depends on axioms {bad}')
        else:
            res['discharged'] += 1
    for f in (af, af.with_suffix('.vo'), af.with_suffix('.glob'), af.with_suffix('.vok'), af.with_suffix('.vos')):
        try:
            f.unlink()
        except FileNotFoundError:
            pass
    return res


def strip_coq_comments(s: str) -> str:
    out, depth, i = [], 0, 0
    while i < len(s):
        if s.startswith('(*', i):
            depth += 1
            i += 2
        elif s.startswith('*)', i) and depth:
            depth -= 1
            i += 2
        else:
            if depth == 0:
                out.append(s[i])
            i += 1
    return ''.join(out)


def in_section(text: str, pos: int) -> bool:
    before = text[:pos]
    return len(re.findall(r'^\s*Section\s', before, flags=re.M)) > len(re.findall(r'^\s*End\s', before, flags=re.M))


def coq_eval_cases(prop: str, shard_texts: list[str], timeout: int = 900) -> list[tuple[int, str, str]]:
    """Write Replay/cases_<prop>_<k>.v for each text, compile them in parallel, return
    [(rc, stdout, stderr)] in order. Files are removed afterwards."""
    paths = []
    for k, t in enumerate(shard_texts):
        p = REPLAY / f'cases_{prop}_{k}_{os.getpid()}.v'
        p.write_text(t)
        paths.append(p)
    procs = []
    with CoqLock():
        pass  # make sure no build is running; the compiled Driver/Model are only read below
    results = [None] * len(paths)
    maxpar = 8
    idx = 0
    running = []
    while idx < len(paths) or running:
        while idx < len(paths) and len(running) < maxpar:
            cmd = ['timeout', str(timeout), 'coqc', '-Q', '.', 'MpV', str(paths[idx].relative_to(COQ))]
            running.append((idx, subprocess.Popen(cmd, cwd=str(COQ), stdout=subprocess.PIPE,
                                                  stderr=subprocess.PIPE, text=True)))
            idx += 1
        i, pr = running.pop(0)
        out, err = pr.communicate()
        results[i] = (pr.returncode, out, err)
    for p in paths:
        for suf in ('.v', '.vo', '.glob', '.vok', '.vos'):
            try:
                p.with_suffix(suf).unlink()
            except FileNotFoundError:
                pass
        try:
            (p.parent / ('.' + p.stem + '.aux')).unlink()
        except FileNotFoundError:
            pass
    return results


def parse_nat_list(out: str) -> list[int] | None:
    """Parse the `= [a; b; ...] : list nat` answer of an Eval vm_compute."""
    m = re.search(r'=\s*\[(.*?)\]\s*:\s*list', out.replace('\n', ' '), flags=re.S)
    if not m:
        return None
    body = m.group(1).strip()
    if not body:
        return []
    return [int(x.replace('%nat', '').strip()) for x in body.split(';')]


# Coq literal helpers ------------------------------------------------------------------------

def cz(n: int) -> str:
    return f'({n})%Z' if n < 0 else f'{n}%Z'


def cnat(n: int) -> str:
    assert 0 <= n < 5000, n
    return f'{n}%nat'


def clist(xs, f=str) -> str:
    return '[' + '; '.join(f(x) for x in xs) + ']'


def cbool(b) -> str:
    return 'true' if b else 'false'


def copt(x, f=str) -> str:
    return 'None' if x is None else f'(Some {f(x)})'


# ---------------------------------------------------------------------------------------------
# Known findings, evidence, exit protocol
# ---------------------------------------------------------------------------------------------

def known_findings(prop: str) -> list[dict]:
    p = VERIF / 'known_findings.json'
    if not p.exists():
        return []
    return [e for e in json.loads(p.read_text()).get('findings', []) if e.get('property') == prop]


def write_replay(prop: str, payload: dict) -> Path:
    d = VERIF / 'replays'
    d.mkdir(exist_ok=True)
    blob = json.dumps(payload, sort_keys=True, indent=1, default=str)
    h = hashlib.sha1(blob.encode()).hexdigest()[:10]
    p = d / f'{prop}_{h}.json'
    p.write_text(blob)
    return p


def write_evidence(prop: str, tier: str, seed: int, coverage: dict, assumptions: list[str],
                   wall_s: float, violations: int, level: str = 'proof', extra: dict | None = None):
    d = VERIF / 'evidence'
    d.mkdir(exist_ok=True)
    ev = {'property_id': prop, 'tier': tier, 'seed': seed, 'level': level, 'coverage': coverage,
          'assumptions': assumptions, 'wall_s': round(wall_s, 2), 'violations': violations}
    if extra:
        ev.update(extra)
    tmp = d / f'{prop}.json.tmp'
    tmp.write_text(json.dumps(ev, indent=1, default=str))
    tmp.replace(d / f'{prop}.json')


class Outcome:
    """Collects what a check found; decides KNOWN-FINDING vs VIOLATION lines and the exit code."""

    def __init__(self, prop: str):
        self.prop = prop
        self.violations: list[dict] = []     # {'what':..., 'replay': {...}, 'key': str, 'found_input': bool}
        self.known_hits: dict[str, dict] = {}
        self.known = [k for k in known_findings(prop) if k.get('status') == 'open']

    def violation(self, what: str, replay: dict, key: str | None = None, found_input: bool = True):
        """key: the finding key computed by the property's own trigger predicate (or None)."""
        if key is not None:
            for k in self.known:
                if k['id'] == key:
                    self.known_hits.setdefault(key, {'entry': k, 'count': 0, 'what': what})['count'] += 1
                    return
        self.violations.append({'what': what, 'replay': replay, 'found_input': found_input})

    def emit(self) -> int:
        for key, h in sorted(self.known_hits.items()):
            print(f"KNOWN-FINDING: property={self.prop} {h['entry']['what']} [{key}; seen {h['count']}x this run]")
        if not self.violations:
            return 0
        # report the first violation with a concrete input if there is one
        vs = sorted(self.violations, key=lambda v: not v['found_input'])
        v = vs[0]
        payload = dict(v['replay'])
        payload.setdefault('property', self.prop)
        payload['what'] = v['what']
        payload['other_violations_this_run'] = len(vs) - 1
        path = write_replay(self.prop, payload)
        tail = '' if v['found_input'] else ' no-failing-input-found'
        print(f'VIOLATION property={self.prop} replay={path}{tail}')
        print('  ' + v['what'][:400])
        return 1


def seed_from_env(default: int = 1) -> int:
    try:
        return int(os.environ.get('VERIF_SEED', default))
    except ValueError:
        return default


def parse_pair_list(out: str):
    """Parse `= [(a, b); (c, d)] : list (nat * nat)`."""
    m = re.search(r'=\s*\[(.*?)\]\s*:\s*list', out.replace('\n', ' '), flags=re.S)
    if not m:
        return None
    body = m.group(1).strip()
    if not body:
        return []
    return [tuple(int(x.replace('%nat', '')) for x in p.strip(' ()').split(',')) for p in body.split(';')]


def tv_eval(prop: str, driver: str, case_texts: list[str], shard: int = 300, fn: str = 'bad_cases'):
    """Evaluate `fn cases` for the given Coq case literals with the compiled driver module.
    Returns (list of (case index, error code), problem or None)."""
    ok, log, _ = coq_make([f'Driver/{driver}.vo'])
    if not ok:
        return [], 'driver build failed: ' + log[-1500:]
    shards = [case_texts[i:i + shard] for i in range(0, len(case_texts), shard)]
    texts = [f'From MpV Require Import Driver.{driver}.\nDefinition cases : list case :=\n[' +
             ';\n '.join(sh) + f'].\nEval vm_compute in {fn} cases.\n' for sh in shards]
    bad, problem = [], None
    for k, (rc, so, se) in enumerate(coq_eval_cases(prop, texts)):
        pairs = parse_pair_list(so) if rc == 0 else None
        if pairs is None:
            problem = f'cases shard {k} did not evaluate: {(so + se)[-800:]}'
            continue
        bad += [(k * shard + i, code) for i, code in pairs]
    return bad, problem


# ---------------------------------------------------------------------------------------------
# generic check: audit + (impl runs -> trace validation / differential correspondence in Coq)
#                + runtime oracle + evidence
# ---------------------------------------------------------------------------------------------

class Part:
    """One correspondence component of a check.
    module/args: impl-side generator `python -m module *args(seed, n, outfile[, corpus])` writing a JSON list
    driver: Coq driver module (Driver/<driver>.v) with `case` and `bad_cases`
    coq_case(r) -> str; oracle(r) -> None | (message, finding_key|None); nontrivial(r) -> bool
    key(r) -> hashable identity of the case (distinctness)."""

    def __init__(self, name, module, what, n_quick, n_thorough, driver, coq_case, oracle,
                 nontrivial, key=None, describe=None, shard=300, corpus=None, extra_args=()):
        self.name, self.module, self.what = name, module, what
        self.n_quick, self.n_thorough = n_quick, n_thorough
        self.driver, self.coq_case, self.oracle, self.nontrivial = driver, coq_case, oracle, nontrivial
        self.key = key or (lambda r: json.dumps([r.get('cfg'), r.get('events')], sort_keys=True, default=str))
        self.describe = describe or (lambda r: {k: r.get(k) for k in ('cfg', 'strategy', 'verdict', 'outcome', 'events')})
        self.shard = shard
        self.corpus = corpus
        self.extra_args = list(extra_args)


def generic_check(prop, tier, seed, parts, trusted, assume, rule, replay=None, model_note='',
                  extra_cov=None, post=None):
    t0 = time.time()
    out = Outcome(prop)
    aud = audit(prop)
    work = VERIF / 'work'
    work.mkdir(exist_ok=True)
    for p in aud['problems']:
        out.violation('proof obligation not discharged: ' + p,
                      {'stage': 'proof', 'theorems': aud['theorems'], 'problem': p}, found_input=False)
    total = validated = mism_n = 0
    distinct = set()
    samples = []
    dist = {}
    all_results = {}
    for part in parts:
        n = part.n_quick if tier == 'quick' else part.n_thorough
        resf = work / f'{prop}_{part.name}_{seed}_{os.getpid()}.json'
        args = [part.what, str(seed), str(n), str(resf)] + part.extra_args
        corpus = part.corpus or (VERIF / 'corpus' / f'{prop}_{part.name}.json')
        if replay:
            rp = json.loads(open(replay).read())
            if rp.get('part') not in (None, part.name):
                continue
            tmpc = work / f'{prop}_replay_corpus.json'
            tmpc.write_text(json.dumps([rp['case']] if 'case' in rp else []))
            args = [part.what, str(seed), '0', str(resf)] + part.extra_args + [str(tmpc)]
        elif Path(corpus).exists():
            args.append(str(corpus))
        rc, so, se = run_impl(part.module, args, timeout=420 if tier == 'quick' else 5400)
        results = []
        if rc == 0 and resf.exists():
            results = json.loads(resf.read_text())
        else:
            out.violation(f'implementation harness ({part.name}) failed rc={rc}: {se[-600:]}',
                          {'stage': 'impl-harness', 'part': part.name, 'stderr': se[-3000:], 'stdout': so[-1000:]},
                          found_input=False)
        try:
            resf.unlink()
        except FileNotFoundError:
            pass
        all_results[part.name] = results
        total += len(results)
        orc_bad = set()
        for i, r in enumerate(results):
            v = part.oracle(r)
            if v:
                msg, key = v
                orc_bad.add(i)
                out.violation(f'oracle[{part.name}]: {msg}',
                              {'stage': 'oracle', 'part': part.name, 'case': replay_case(r), 'run': part.describe(r),
                               'verdict': msg, 'how': f'./check {prop} --replay <this file>'}, key=key)
        if results and part.driver and not aud['problems']:
            bad, problem = tv_eval(prop, part.driver, [part.coq_case(r) for r in results], shard=part.shard)
            if problem:
                out.violation(f'correspondence[{part.name}] could not be evaluated: ' + problem,
                              {'stage': 'correspondence', 'part': part.name, 'problem': problem}, found_input=False)
            else:
                validated += len(results) - len(bad)
            mism_n += len(bad)
            for i, code in bad:
                if i in orc_bad:
                    continue
                r = results[i]
                out.violation(f'model/implementation correspondence broken ({part.driver}.check_case code {code}): the '
                              f'logged run of the implementation is not a run of the Coq model; the property oracle '
                              f'accepts this run, so no failing input was found',
                              {'stage': 'correspondence', 'part': part.name, 'code': code, 'case': replay_case(r),
                               'run': part.describe(r), 'theorem_or_correspondence': f'{part.driver}.check_case'},
                              found_input=False)
        for r in results:
            if part.nontrivial(r):
                distinct.add(part.name + part.key(r))
            k = f"{part.name}:{r.get('strategy', '-')}:{r.get('verdict', '-')}"
            dist[k] = dist.get(k, 0) + 1
        samples += [part.describe(r) for r in results[:2]]
    cov = {
        'obligations': aud['obligations'], 'discharged': aud['discharged'], 'checker_cmd': aud['checker_cmd'],
        'trusted_base': trusted, 'theorems': aud['theorems'], 'print_assumptions': aud['assumptions'],
        'evaluations': total, 'distinct_nontrivial': len(distinct),
        'traces_validated_against_impl': validated, 'correspondence_mismatches': mism_n,
        'rule': rule, 'distribution': dist, 'samples': samples, 'model_note': model_note,
    }
    if post:
        post(all_results, out, cov)
    if extra_cov:
        cov.update(extra_cov)
    rc = out.emit()
    cov['known_findings_seen'] = {k: v['count'] for k, v in out.known_hits.items()}
    write_evidence(prop, tier, seed, cov, assume, time.time() - t0, len(out.violations))
    return rc


def replay_case(r):
    """what is needed to re-execute this run: configuration + scheduler decisions"""
    return {'cfg': r.get('cfg'), 'decisions': r.get('decisions'), 'strategy': r.get('strategy')}
