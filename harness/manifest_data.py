"""Per-property MANIFEST entries. Edit here, then run ./tools_manifest.py."""
NOTES = ("All checks: ./check <id>. Proof = Coq theorems about a hand-written executable model; the tie to /repo is a "
         "correspondence check run on every invocation (see DESIGN.md sections 3-4).")
NOT_BUILT = {}
CHECKS = {
 "C19": {
  "technique": "Coq proof (induction over the arrival list) + differential correspondence with the real EagerBatcher in virtual time",
  "text": "Theorems for all batch sizes >= 1, waits >= 0 and arrival sequences of any length: partition, batch sizes, short-batch justification and exact emission time, termination iff end marker. The model is tied to the code by running the real EagerBatcher on a virtual-time queue and comparing batches and emit times with the model inside Coq (vm_compute) on every run; an independent runtime oracle checks the property on the same runs.",
  "note": "Trusted: Coq kernel + vm_compute; the hand-written model; queue.get(timeout) semantics as stated in Model/EagerBatcher.v; integer virtual time (float rounding not modelled). No axioms.",
  "design_ref": "DESIGN.md section 5 C19",
 },
}
