"""Per-property MANIFEST entries. Edit here, then run ./tools_manifest.py."""
NOTES = ("All checks: ./check <id>. Proof = Coq theorems about a hand-written executable model; the tie to /repo is a "
         "correspondence check run on every invocation (see DESIGN.md sections 3-4).")
NOT_BUILT = {}
CHECKS = {
 "C19": {
  "technique": "Coq proof (induction over the arrival list) + differential correspondence with the real EagerBatcher in virtual time",
  "text": "Theorems for all batch sizes >= 1, waits >= 0 and arrival sequences of any length: partition, batch sizes, short-batch justification and exact emission time, termination iff end marker. The model is tied to the code by running the real EagerBatcher on a virtual-time queue and comparing batches and emit times with the model inside Coq (vm_compute) on every run; an independent runtime oracle checks the property on the same runs.",
  "note": "Trusted: Coq kernel + vm_compute; the hand-written model; queue.get(timeout) semantics as stated in Model/EagerBatcher.v; integer virtual time (float rounding not modelled). No axioms.",
  "design_ref": "DESIGN.md section 5 C19",
 },
 "C08": {
  "technique": "Coq proof (inductive counting invariant over all schedules) + trace validation of the real Buffer/fifo_stream/Parmapper under a deterministic scheduler",
  "text": "Theorems for every capacity, concurrency, buffer size, source, failure table, stop position and every interleaving (all schedules of the small-step models): pulled-but-not-delivered <= capacity+3 (fifo_stream; 2*concurrency+3 for parmap), <= n+2 for buffer(n), running worker calls <= concurrency. The models are tied to the code on every run by trace validation: the unmodified mpservice code runs on real threads under a deterministic scheduler with virtual primitives, schedules that drive the queues to their bounds are included, and each logged run is replayed event by event in the Coq model; a runtime oracle recomputes the look-ahead from the event log.",
  "note": "Trusted: Coq kernel + vm_compute; the hand-written models; the scheduler and virtual primitives (CPython semantics of Lock/Condition/Event/Future); thread-locality of code between logged operations; the stdlib thread pool is replaced by a managed pool with max_workers threads. Process executors are not scheduled. No axioms.",
  "design_ref": "DESIGN.md section 5 C08",
 },
 "C01": {
  "technique": "Coq proof (inductive invariant over all schedules of the feeder/consumer/pool model) + trace validation of the real fifo_stream/Parmapper under a deterministic scheduler",
  "text": "Theorems for every capacity, pool size, source, outcome table, preprocessor, flags, stop position and every interleaving / completion order: the outputs handed to the consumer are exactly [(0, outcome 0); ...; (k-1, outcome (k-1))] - one per input, in input order, each the function of its own input - and no exception object is delivered unless return_exceptions. The model is tied to the code by trace validation on every run (real threads under a deterministic scheduler, each logged run replayed event by event in Coq); and when the iteration completes normally the consumer has received exactly one output for every source element (C01_fifo_complete). An independent oracle recomputes expected outputs and checks that no element is submitted twice.",
  "note": "Partial only in that call-once (worker function started at most once per element) is checked by the oracle on explored runs (theorem _todo). Trusted: Coq kernel + vm_compute, the hand-written model, scheduler + virtual primitives, thread-locality between logged operations; process executors not scheduled. No axioms.",
  "design_ref": "DESIGN.md section 5 C01",
 },
 "C05": {
  "technique": "Coq proof of the cleanup invariant + vm_compute refutation witnesses for the hanging configurations + trace validation and hang classification of the real code under a deterministic scheduler",
  "text": "Proved for all schedules: a closed iterator (Buffer, fifo_stream/Parmapper) has no live helper thread; failures are delivered in stream order (C01 theorems). The 'nothing blocks forever' clause is refuted on the current tree for buffer(1)/(2) with early stop and for sources raising StopRequested (witness schedules as _refuted theorems; recorded as known findings, replayed on the implementation). For all other configurations hang-freedom rests on the deterministic scheduler's classification of every explored run (deadlock = no enabled thread), tied to the model by trace validation.",
  "note": "Partial: deadlock-freedom theorems for the non-refuted configurations are _todo; AsyncBuffer/SyncIter/ParmapperAsync and process pools are not scheduled. Trusted as for C01. No axioms.",
  "design_ref": "DESIGN.md section 5 C05",
 },
 "C03": {
  "technique": "Coq proofs (induction over the element list for each operator transducer, Permutation for shuffle) + differential correspondence of the real Stream with the model + independent reference oracle",
  "text": "Theorems for every element list and parameter: each operator's transducer (mirroring its generator) equals its documented list function (map, filter, firstn, last-n, chunking with partition characterisation, concat, consecutive grouping with partition characterisation, scan), first-failure position for map, head pulls <= n+1, shuffle is a permutation for every draw oracle, pipelines compose, first k outputs of inline one-to-one chains depend on the first k inputs only. Tie: random pipelines over a shared named-function library run on the real Stream (iteration/collect/drain; real threads for buffer/parmap) and on the model inside Coq; an independent reference implementation and pull-count oracles (construction pulls nothing; bounded look-ahead after k outputs) run on every case.",
  "note": "Trusted: Coq kernel + vm_compute; hand-written transducers and the duplicated function library; itertools.groupby; buffer/parmap enter the model with their C01/C05 sequential behaviour (identity / in-order map) and are executed for real in the tie. buffer sizes 1-2 are excluded from generated pipelines (known finding C05-C hangs on early stop). No axioms.",
  "design_ref": "DESIGN.md section 5 C03",
 },
 "C06": {
  "technique": "Coq proof (lock-ownership invariant over all schedules and timer expiries of the caller/gather/notifier model) + trace validation of the real Server under a deterministic scheduler",
  "text": "Theorem for every capacity, number and kind of callers, servlet workers, servlet function and every interleaving including every moment a timed wait may expire: the ledger never holds more than `capacity` requests (current and historical maximum). Tie: the real Server.call / gather / notifier code runs on real threads under the deterministic scheduler with a logging ledger and condition, the backlog is sampled at every yield point, each run is replayed event by event in the model. Oracle per run: backlog <= capacity, backpressure callers never wait and rejected callers leave no trace, waits bounded by the timeout (deadline-ordered timers), idle server has backlog zero, context exits normally. Two genuine defects found this way were repaired (fix: commits de2b131, c677130).",
  "note": "Partial: slot-returned/idle-zero and reject-clean are oracle-checked on explored runs (theorems _todo). Trusted: Coq kernel + vm_compute, the hand-written model, scheduler + virtual primitives, unique request ids (id reuse is C02), servlet stand-in; AsyncServer not scheduled. No axioms.",
  "design_ref": "DESIGN.md section 5 C06",
 },
 "C07": {
  "technique": "Coq proof (invariants over all schedules with deadline expiry at any step) + trace validation of the real Server under timer-adversarial deterministic schedules",
  "text": "Theorems for all configurations and all interleavings with a caller's deadline allowed to expire at any step: the gather thread is never killed, and every answered request receives the servlet's result for its own input. Tie and oracle as C06, with schedules that make cancel() land before, between and after the gather thread's pop / cancelled() / set_result; every run must leave the server context normally with the gather thread alive and all non-timed-out callers answered correctly. The InvalidStateError defect found this way was repaired (fix: commit 08bbde4).",
  "note": "Partial: shutdown_completes is liveness and rests on explored runs; stream abandonment is covered through the fifo_stream cleanup model (C05), not re-modelled here. Trusted as C06. No axioms.",
  "design_ref": "DESIGN.md section 5 C07",
 },
 "C15": {
  "technique": "Coq proof (induction over the hop list of the wrap/pickle/re-raise model) + differential correspondence with the real RemoteException and pickle",
  "text": "Theorem for every exception class/args, traceback content, number of hops >= 1 and forward/re-raise pattern: class and args preserved, is_remote_exception true, the final remote traceback text contains the originally formatted traceback and is identical to it when the exception was only forwarded; a bare exception object without traceback is refused. Tie: random journeys through the real RemoteException + pickle round trips compared with the model on (wrapped?, is_remote, contains, equal); a direct oracle checks class, args, site markers of every raise, chained causes, hop-to-hop containment and EnsembleError members.",
  "note": "Partial: EnsembleError nesting has no theorem (oracle + correspondence only). Trusted: Coq kernel + vm_compute; the hand-written model; traceback.format_exception prints str(__cause__); pickling of the exception classes themselves; a process hop is modelled by pickle.dumps/loads. No axioms.",
  "design_ref": "DESIGN.md section 5 C15",
 },
 "C18": {
  "technique": "Coq proof of the record codec round trip (all payloads, ids, lengths) + byte-exact differential correspondence with write_record/read_record + sampled loopback runs for multiplexing and the pipe",
  "text": "Theorems: for every payload (any bytes and length), request id and encoder name without whitespace and any following bytes, read_record(write_record(...) ++ rest) returns exactly that record and leaves rest; a concatenation of any number of records decodes to the same list; the decimal length field round-trips for every length. Tie: the real write_record output is compared byte for byte with the model and the real read_record, fed through an asyncio.StreamReader in random chunks, with the model's decoder, inside Coq. The multiplexing clause (each response reaches the request that caused it over 1-3 connections, stream preserves order) and the pipe transport are exercised by sampled real loopback runs with reordering latencies, failing handlers and 70 kB payloads, checked by an oracle.",
  "note": "Partial: no theorem for the multiplexing/pipe clauses (exploration only). Trusted: Coq kernel + vm_compute, stdlib DecimalNat lemma, the hand-written model, asyncio streams, pickle/utf8. No axioms.",
  "design_ref": "DESIGN.md section 5 C18",
 },
 "C17": {
  "technique": "Coq proof (permutation invariant over all schedules of the supplier/consumer/renew model) + vm_compute refutation witness + trace validation of the real IterableQueue under a deterministic scheduler",
  "text": "Theorem for every number of suppliers/consumers, queue bound, number of rounds, item lists and every interleaving: at every moment the items received (all consumers, all rounds), the items still queued and those swallowed by a failing renew() are together exactly the items put - nothing lost, duplicated or invented. The clause 'exactly one end marker remains / rounds are independent' is refuted on the current tree (two consumers both add the extra marker; witness schedule as a theorem; recorded as known finding C17-Q and replayed on the implementation). Tie: the real IterableQueue (thread flavour) runs under the deterministic scheduler over virtual queues and every run is replayed event by event in the model; the oracle compares, per round, the multisets put and received, markers/items left and renew; a second oracle-only scenario sets a stop event while parties are blocked and requires StopRequested within the wait interval.",
  "note": "Partial: consumers_finish, per-round completeness and stop_unblocks rest on explored runs (no theorem). Process flavour not scheduled. Trusted: Coq kernel + vm_compute, the hand-written model, scheduler + virtual queue.Queue. No axioms.",
  "design_ref": "DESIGN.md section 5 C17",
 },
 "C10": {
  "technique": "Coq proof (source-pulled-once invariant) + vm_compute refutation witnesses for the hang and source-failure clauses + trace validation of the real tee under a deterministic scheduler with attribute-level yield points",
  "text": "Proved for every number of forks, buffer size, source and interleaving (preemption between any two shared accesses of Fork.__next__): the source is pulled once per element and the shared boxes hold exactly the pulled elements in order. Refuted on the current tree, with witness schedules as theorems that were first observed on the implementation: both forks hang when the first-element path meets a full window (known finding C10-I); with a failing source the pulling fork leaks the source lock, raises before delivering an element it holds and its peers do not see the exception (C10-JK). Tie: every scheduled run of the real code (ok, deadlock or livelock prefix) is replayed event by event in the model; the oracle checks each fork's list and ending, the pull count and the look-ahead bound.",
  "note": "Partial: fork_prefix and the window bound have no theorem yet (oracle on explored runs); liveness is only refuted. Trusted: Coq kernel + vm_compute, the hand-written model, scheduler + instrumented attributes. No axioms.",
  "design_ref": "DESIGN.md section 5 C10",
 },
 "C12": {
  "technique": "Coq proof (case analysis over endings x kill phases x signals of the child/collector/accessor model) + differential correspondence with real processes killed at controlled phases",
  "text": "Theorems for every ending (return, raise, sys.exit variants), kill phase (none, before, during, between the two sends, after both) and signal: the parent's future is always resolved (so wait/as_completed return), join/result/exception/wait agree, values and exceptions round-trip, an unexpected signal surfaces as OSError (SIGTERM as result None), a kill after both sends does not change the report, and Thread reports the same as an unkilled Process. Tie: real mpservice Process objects are started with each ending, killed at each phase (blocking target, blocking __reduce__ between the sends, Finalize hook after the sends) with SIGTERM/SIGKILL/SIGUSR1 and queried with each accessor first; the resolved future is compared with the model inside Coq and an oracle requires all accessors, wait and as_completed to return and agree. The hang found this way was repaired (fix: commit 51c64a2).",
  "note": "Partial: OS delivery of signals/EOF/exit codes is trusted; real processes cannot be scheduled, each case is one real run with a watchdog. No axioms.",
  "design_ref": "DESIGN.md section 5 C12",
 },
 "C16": {
  "technique": "Coq corollaries of the FifoStream theorems (all schedules => every completion order in either flavour) + differential correspondence of six sync/async variants with a sequential reference evaluated in Coq",
  "text": "Theorems: any two executions of the fifo machine agree on their common output prefix; two executions that complete deliver identical outputs (values, exception objects, order, pairing); an element rejected by the preprocessor yields its own exception; the sequential reference delivers the in-order outcomes. Cooperative (asyncio) executions are a family of schedules of the same machine, so the statements cover every completion order of both flavours. Tie: fifo_stream, Parmapper, ParmapperAsync, async_fifo_stream, AsyncParmapperAsync, AsyncParmapper (and sampled Server vs AsyncServer stream/call) are run on identical tables with per-call durations forcing many completion orders; all must agree with each other and with the Coq-evaluated reference. The async feeder defect found by this check on the pinned tree was repaired (fix: commit a6bddac).",
  "note": "Partial: the async code is tied to the model by outputs only (its event loop is not scheduled); completion orders are forced by real sleeps, not enumerated; AsyncServer is sampled. Trusted: Coq kernel + vm_compute, the FifoStream model, asyncio and ThreadPoolExecutor. No axioms.",
  "design_ref": "DESIGN.md section 5 C16",
 },
}
