"""Real (unscheduled) runs of AsyncServer and of Server over a ProcessServlet - what the deterministic scheduler cannot drive:
concurrent callers with timeouts, backpressure on / off, cancellations (async) and failing requests. The server's in-flight
ledger is replaced, before its threads start, by a dict subclass that performs every operation the code uses on it (len,
insert, pop) under a lock and logs it in that order; the exact history is replayed in coq/Model/BacklogSpec.v."""
from __future__ import annotations

import asyncio
import json
import random
import sys
import threading
import time

ACC, REL = 0, 1
RUN_LIMIT = 90.0


class LedgerLog(dict):
    def __init__(self, log, glog=None):
        super().__init__()
        self._log, self._lk = log, threading.Lock()
        self._glog = glog            # the gate log (ledger + condition tokens, see coq/Driver/DriverGate.v); None = not kept

    def __setitem__(self, k, v):
        with self._lk:
            new = not dict.__contains__(self, k)
            dict.__setitem__(self, k, v)
            if new:
                self._log.append(ACC)
                if self._glog is not None and self._glog[0]:
                    self._glog.append(0)

    def pop(self, k, *a):
        with self._lk:
            had = dict.__contains__(self, k)
            r = dict.pop(self, k, *a)
            if had:
                self._log.append(REL)
                if self._glog is not None and self._glog[0]:
                    self._glog.append(1)
            return r

    def __len__(self):
        with self._lk:
            n = dict.__len__(self)
            self._log.append(2 + n)
            if self._glog is not None and self._glog[0]:
                self._glog.append(10 + n)
            return n


def make_logging_condition(glog):
    """asyncio.Condition whose wait() / notify() are CPython 3.12's own code with log statements added. glog[0] is the on/off
    switch, tokens are appended after it."""
    import asyncio
    from asyncio import exceptions

    class LFuture(asyncio.Future):
        def cancel(self, msg=None):
            r = super().cancel(msg)
            if r and glog[0]:
                glog.append(8)           # the future a caller waits on is cancelled: notify() skips it from now on
            return r

    class LoggingCondition(asyncio.Condition):
        async def wait(self):
            if not self.locked():
                raise RuntimeError('cannot wait on un-acquired lock')
            if glog[0]:
                glog.append(2)
            self.release()
            fut = None
            try:
                fut = LFuture(loop=self._get_loop())
                self._waiters.append(fut)
                try:
                    await fut
                    return_ok = True
                    return True
                finally:
                    self._waiters.remove(fut)
            finally:
                cancelled = False
                while True:
                    try:
                        await self.acquire()
                        break
                    except exceptions.CancelledError:
                        cancelled = True
                import sys
                leaving = cancelled or sys.exc_info()[0] is not None
                if glog[0]:
                    if leaving:
                        glog.append(5 if (fut is not None and fut.done() and not fut.cancelled()) else 4)
                    else:
                        glog.append(3)
                if cancelled:
                    raise exceptions.CancelledError

        def notify(self, n=1):
            if not self.locked():
                raise RuntimeError('cannot notify on un-acquired lock')
            idx = 0
            for fut in self._waiters:
                if idx >= n:
                    break
                if not fut.done():
                    idx += 1
                    fut.set_result(False)
            if glog[0]:
                glog.append(6 + min(idx, 1))

    return LoggingCondition()


_installed = [False]


def install():
    if _installed[0]:
        return
    from mpservice.mpserver import _server
    orig = _server._enter_server

    def enter(self, gather_args=None):
        log = getattr(self, '_verif_ledger_log', None)
        if log is not None:
            glog = getattr(self, '_verif_gate_log', None)
            self._uid_to_futures = LedgerLog(log, glog)      # the threads started below capture this object
            if glog is not None:
                self._pipeline_notfull = make_logging_condition(glog)
        return orig(self, gather_args)

    _server._enter_server = enter
    _installed[0] = True


def core_cases():
    """histories in which the slot a waiter needs is freed by an abandoned request, or the notified waiter goes away"""
    A = {'start': 0, 'dur': 40, 'fail': 0, 'timeout': 5.0, 'bp': False, 'cancel_after': None}
    W = {'start': 5, 'dur': 5, 'fail': 0, 'timeout': 5.0, 'bp': False, 'cancel_after': None}
    out = []
    for kind in ('async-thread', 'sync-thread', 'async-process'):
        # A is abandoned by its timeout; the waiter B needs the slot A's late result frees
        out.append({'kind': kind, 'capacity': 1, 'workers': 1, 'callers': [dict(A, timeout=0.02), dict(W)], 'sessions': 2})
    # the same with A's calling task cancelled
    out.append({'kind': 'async-thread', 'capacity': 1, 'workers': 1, 'callers': [dict(A, cancel_after=10), dict(W)]})
    # two waiters; the first one's caller goes away in the very loop iteration in which A's result is delivered
    out.append({'kind': 'async-thread', 'capacity': 1, 'workers': 1,
                'callers': [dict(A), dict(W, cancel_on_done_of=0), dict(W, start=10)]})
    # a non-batching worker that runs call() in its own thread pool, several requests inside it at once: each gets its own result
    for kind in ('sync-thread', 'async-process'):
        out.append({'kind': kind, 'capacity': 8, 'workers': 1, 'nst': 4,
                    'callers': [dict(A, start=0, dur=[40, 5, 25, 10, 30, 15, 5, 20][i]) for i in range(8)]})
    # ... and requests that time out while that worker still computes results larger than a pipe buffer: the server is left
    out.append({'kind': 'sync-process', 'capacity': 8, 'workers': 1, 'nst': 4,
                'callers': [dict(A, start=0, dur=300, timeout=0.05, pad=100000) for i in range(4)], 'exit_at_once': True})
    # a process worker failing with an exception that pickle cannot re-create in the server: that request is lost (it times
    # out), the others are served
    for kind in ('sync-process', 'async-process'):
        out.append({'kind': kind, 'capacity': 4, 'workers': 1, 'callers': [dict(A, dur=5, fail=6, timeout=0.5), dict(W, start=10), dict(W, start=30)]})
    # a worker raising StopIteration / the builtin TimeoutError: its own request fails with it, at once
    for kind in ('async-thread', 'sync-thread'):
        out.append({'kind': kind, 'capacity': 2, 'workers': 1, 'callers': [dict(A, dur=5, fail=8), dict(A, dur=5, fail=9, start=5), dict(W, start=10)]})
    # ... or its patience runs out at about that time
    out.append({'kind': 'async-thread', 'capacity': 1, 'workers': 1,
                'callers': [dict(A), dict(W, timeout=0.0405), dict(W, start=10)]})
    return out


def gen_case(rng, idx):
    core = core_cases()
    if idx < len(core):
        return core[idx]
    kind = ['async-thread', 'sync-process', 'async-process'][idx % 3] if idx < 9 else rng.choice(
        ['async-thread', 'async-thread', 'async-thread', 'sync-process', 'async-process', 'sync-thread'])
    cap = rng.choice([1, 1, 2, 3])
    ncall = rng.choice([2, 4, 6, 9])
    callers = []
    if rng.random() < 0.15:
        # a burst of callers whose deadlines fall around the moment their results arrive
        return {'kind': kind, 'capacity': 8, 'workers': 8, 'callers': [
            {'start': 0, 'dur': 5, 'fail': 0, 'timeout': 0.005 + 0.00005 * i, 'bp': False, 'cancel_after': None} for i in range(8)] * 3}
    for i in range(ncall):
        callers.append({
            'start': rng.choice([0, 0, 5, 20, 45]),                     # ms
            'dur': rng.choice([5, 15, 40]),
            'fail': rng.choice([0, 0, 0, 0, 7, 7, 8, 9]),
            'timeout': rng.choice([0.02, 0.06, 5.0, 5.0, 'at-result']),
            'bp': rng.random() < 0.4,
            'cancel_after': rng.choice([None, None, None, 3, 12, 30]) if kind.startswith('async') else None,
        })
    for s_ in callers:
        if s_['timeout'] == 'at-result':
            s_['timeout'] = s_['dur'] / 1000 + rng.choice([0, 0.0002, 0.001])
    return {'kind': kind, 'capacity': cap, 'workers': rng.choice([1, 1, 2]), 'callers': callers, 'nst': rng.choice([0, 0, 0, 3]),
            'sessions': rng.choice([1, 1, 2])}


def _servlet(c):
    from mpservice.mpserver import ProcessServlet, ThreadServlet
    from harness.backlog_workers import BW
    kw = {'nst': c['nst']} if c.get('nst') else {}      # the worker runs call() in its own thread pool
    if c['kind'].endswith('process'):
        return ProcessServlet(BW, cpus=[None] * c['workers'], **kw)
    return ThreadServlet(BW, num_threads=c['workers'], **kw)


def _classify(e):
    from mpservice.mpserver import ServerBacklogFull
    from mpservice.mpserver import TimeoutError as ServerTimeoutError
    from harness.backlog_workers import StageErr
    if isinstance(e, ServerBacklogFull):
        return ['rejected', [round(a, 3) if isinstance(a, float) else a for a in e.args]]
    if isinstance(e, ServerTimeoutError):
        return ['timeout']
    if isinstance(e, TimeoutError) and e.args == (9,):
        return ['failed', 9]                 # the worker's own (builtin) TimeoutError
    if isinstance(e, StopIteration) and e.args == (8,):
        return ['failed', 8]
    if isinstance(e, RuntimeError) and isinstance(e.__cause__, StopIteration) and e.__cause__.args == (8,):
        return ['failed', 8]                 # an asyncio future cannot carry StopIteration: delivered chained to a RuntimeError
    if isinstance(e, TimeoutError):
        return ['timeout']
    if isinstance(e, StageErr):
        return ['failed', e.code]
    return ['error', repr(e)[:200]]


def run_async(c):
    from mpservice.mpserver import AsyncServer
    # the same server object is entered `sessions` times, each time under a new event loop (asyncio.run); what is reported is
    # the last session
    server = AsyncServer(_servlet(c), capacity=c['capacity'])
    state = {}

    async def main():
        log, glog, res = state['log'], state['glog'], state['res']
        server._verif_ledger_log = log
        # (with several sessions the server keeps its own condition object: replacing it at every enter would hide a
        # condition that outlives an event loop; the gate replay is then skipped)
        server._verif_gate_log = glog if c.get('sessions', 1) == 1 else None
        loop = asyncio.get_running_loop()
        loop_errors = res.setdefault('loop_errors', [])
        loop.set_exception_handler(lambda lp, ctx: loop_errors.append(f"{ctx.get('message')}: {ctx.get('exception')!r}"[:200]))
        outs = [None] * len(c['callers'])
        async with server:
            async def caller(i, s):
                t0 = time.monotonic()
                try:
                    await asyncio.sleep(s['start'] / 1000)
                    t0 = time.monotonic()
                    y = await server.call((i, s['dur'], s['fail'], s.get('pad', 0)), timeout=s['timeout'], backpressure=s['bp'])
                    o = ['ok', y[0] if isinstance(y, tuple) else y]
                except asyncio.CancelledError:
                    o = ['cancelled']
                except BaseException as e:  # noqa
                    o = _classify(e)
                outs[i] = o + [round(time.monotonic() - t0, 3)]

            tasks = []
            for i, s in enumerate(c['callers']):
                t = asyncio.ensure_future(caller(i, s))
                tasks.append(t)
                if s['cancel_after'] is not None:
                    loop.call_later((s['start'] + s['cancel_after']) / 1000, t.cancel)
            for i, s in enumerate(c['callers']):
                if s.get('cancel_on_done_of') is not None:
                    tasks[s['cancel_on_done_of']].add_done_callback(lambda _, t=tasks[i]: t.cancel())
            await asyncio.gather(*tasks, return_exceptions=True)
            res['outs'] = outs
            t0 = time.monotonic()
            while dict.__len__(server._uid_to_futures) and time.monotonic() - t0 < 10:
                await asyncio.sleep(0.005)
            res['idle_backlog'] = dict.__len__(server._uid_to_futures)
            res['n_log_main'] = len(log)
            await asyncio.sleep(0.02)          # (the notify() of the last result runs)
            glog[0] = False                    # the gate log covers the mixed phase; __aexit__ waits on the condition itself
            epi = []
            for k in range(3):
                try:
                    epi.append(['ok', await server.call((100 + k, 1, 0), timeout=20, backpressure=False)])
                except BaseException as e:  # noqa
                    epi.append(_classify(e))
            res['epilogue'] = epi
            t1 = time.monotonic()
        res['exit_s'] = round(time.monotonic() - t1, 3)

    for sess in range(c.get('sessions', 1)):
        log, glog = [], [True]
        state.update(log=log, glog=glog, res={'log': log, 'glog': glog})
        try:
            asyncio.run(main())
        except BaseException as e:  # noqa
            if c.get('sessions', 1) > 1:
                raise RuntimeError(f'session {sess + 1} of {c["sessions"]} with the same AsyncServer object failed: {e!r}'[:280]) from e
            raise
    return state['res']


def run_sync(c):
    from mpservice.mpserver import Server
    log = []
    res = {'log': log}
    server = Server(_servlet(c), capacity=c['capacity'])
    server._verif_ledger_log = log
    outs = [None] * len(c['callers'])
    with server:
        def caller(i, s):
            time.sleep(s['start'] / 1000)
            t0 = time.monotonic()
            try:
                y = server.call((i, s['dur'], s['fail'], s.get('pad', 0)), timeout=s['timeout'], backpressure=s['bp'])
                o = ['ok', y[0] if isinstance(y, tuple) else y]
            except BaseException as e:  # noqa
                o = _classify(e)
            outs[i] = o + [round(time.monotonic() - t0, 3)]

        ths = [threading.Thread(target=caller, args=(i, s), daemon=True) for i, s in enumerate(c['callers'])]
        for t in ths:
            t.start()
        for t in ths:
            t.join()
        res['outs'] = outs
        if c.get('exit_at_once'):
            # leave while the abandoned requests are still being worked on
            res['idle_backlog'], res['n_log_main'], res['epilogue'] = 0, len(log), [['ok', 1001], ['ok', 1011], ['ok', 1021]]
        else:
            t0 = time.monotonic()
            while dict.__len__(server._uid_to_futures) and time.monotonic() - t0 < 10:
                time.sleep(0.005)
            res['idle_backlog'] = dict.__len__(server._uid_to_futures)
            res['n_log_main'] = len(log)
            epi = []
            for k in range(3):
                try:
                    epi.append(['ok', server.call((100 + k, 1, 0), timeout=20, backpressure=False)])
                except BaseException as e:  # noqa
                    epi.append(_classify(e))
            res['epilogue'] = epi
        t1 = time.monotonic()
    res['exit_s'] = round(time.monotonic() - t1, 3)
    return res


def run_case(c):
    install()
    box = {}

    def body():
        try:
            box['res'] = (run_async if c['kind'].startswith('async') else run_sync)(c)
        except BaseException as e:  # noqa
            box['res'] = {'crash': repr(e)[:300]}

    th = threading.Thread(target=body, daemon=True)
    th.start()
    th.join(RUN_LIMIT)
    if th.is_alive():
        import multiprocessing
        for p in multiprocessing.active_children():     # whatever is blocked on them gets unblocked; nothing is left behind
            p.kill()
        th.join(10)
        return {'hung': True}
    r = box['res']
    if 'glog' in r:
        r['glog'] = r['glog'][1:] if c.get('sessions', 1) == 1 else []
    if 'log' in r:
        log = r['log']
        b = pk = 0
        for e in log:
            b += 1 if e == ACC else -1 if e == REL else 0
            pk = max(pk, b)
        r['peak'] = pk
        r['n_acc'] = sum(1 for e in log if e == ACC)
    return r


def oracle(c, o):
    if o.get('crash'):
        return 'harness/implementation crashed: ' + o['crash']
    tag = f"{c['kind']} capacity {c['capacity']}"
    if o.get('hung') or 'exit_s' not in o:
        return f'{tag}: the run (callers, epilogue and leaving the server context) had not ended after {RUN_LIMIT:.0f} s'
    cap = c['capacity']
    if o['peak'] > cap:
        return f"{tag}: backlog reached {o['peak']}"
    nrej = 0
    need_acc = 0
    for i, (s, r) in enumerate(zip(c['callers'], o['outs'])):
        if r is None or r[0] == 'error':
            return f'{tag}: caller {i} ended abnormally: {r}'
        if r[0] == 'rejected':
            nrej += 1
            args = r[1]
            if s['bp'] and (len(args) != 2 or args[1] is not None or args[0] < cap):
                return f'{tag}: caller {i} (backpressure=True) was rejected with ServerBacklogFull{tuple(args)}: not the immediate rejection of a full server'
            if s['bp'] and r[-1] > 0.5:
                return f'{tag}: caller {i} (backpressure=True) was rejected after {r[-1]} s in call(): not at once'
            if not s['bp'] and (len(args) != 2 or args[1] is None or args[1] > s['timeout'] + 0.3):
                return f"{tag}: caller {i} (backpressure=False, timeout {s['timeout']}) was rejected with ServerBacklogFull{tuple(args)}"
        elif r[0] == 'ok':
            need_acc += 1
            if r[1] != i * 10 + 1 or s['fail']:
                return f'{tag}: caller {i} received {r[1]}, expected ' + (f"the failure {s['fail']}" if s['fail'] else str(i * 10 + 1))
        elif r[0] == 'failed':
            need_acc += 1
            if r[1] != s['fail']:
                return f"{tag}: caller {i} got the failure {r[1]}, its request fails with {s['fail'] or 'nothing'}"
        elif r[0] == 'timeout':
            need_acc += 1
            if r[-1] > s['timeout'] + 0.5:
                return f"{tag}: caller {i} got TimeoutError after {r[-1]} s with timeout {s['timeout']}"
        if s['timeout'] >= 5 and s['cancel_after'] is None and s.get('cancel_on_done_of') is None and r[0] in ('timeout', 'rejected') and not (s['bp'] and r[0] == 'rejected'):
            return f'{tag}: caller {i} with a 5 s timeout ended with {r} although all the work takes well under a second'
    n_acc_main = sum(1 for e in o['log'][:o['n_log_main']] if e == ACC)
    if n_acc_main < need_acc or n_acc_main > len(c['callers']) - nrej:
        return (f'{tag}: {n_acc_main} requests entered the ledger; {need_acc} callers were answered or timed out and {nrej} of '
                f"{len(c['callers'])} were rejected (a rejected request must leave no trace)")
    if o.get('loop_errors'):
        return f"{tag}: {len(o['loop_errors'])} error(s) reached the event loop's exception handler, e.g. {o['loop_errors'][0]}"
    # A result that cannot even be loaded in the server (failure code 6) is skipped by the gather thread together with its
    # request id, and that request's slot is never given back: a violation of C06 ("every accepted request gives its slot
    # back"), reported separately by `ul_leak` below (known finding C06-UL); a backlog beyond those slots is reported here.
    unloadable = sum(1 for s in c['callers'] if s['fail'] == 6)
    if o['idle_backlog'] > unloadable:
        return f"{tag}: backlog still {o['idle_backlog']} 10 s after every caller had returned (slots not given back)"
    if o['epilogue'] != [['ok', 1001], ['ok', 1011], ['ok', 1021]]:
        return f"{tag}: after the mixed phase the server answered {o['epilogue']} to three plain calls"
    if o['exit_s'] > 30:
        return f"{tag}: leaving the server context took {o['exit_s']} s"
    return None


UL_KEY = 'C06-UL-unloadable-result-slot-never-returned'


def ul_leak(c, o):
    """the slots an idle server still holds for requests whose result could not be loaded (None if none)"""
    if 'idle_backlog' in o and o['idle_backlog'] > 0 and any(s['fail'] == 6 for s in c['callers']):
        return (f"{c['kind']}: idle server still has backlog {o['idle_backlog']}: the slot of a request whose result could not be "
                f"loaded from the output queue (a worker exception that pickle cannot re-create) is never given back")
    return None


def coq_case(r):
    from harness.core import clist, cnat
    c, o = r['cfg'], r['obs']
    if 'log' not in o or 'exit_s' not in o:
        return '(1, [3], 0, 0, [])'        # judged by the oracle
    idle = 0 if (c.get('exit_at_once') or any(s['fail'] == 6 for s in c['callers'])) else 1
    return f"({cnat(c['capacity'])}, {clist(o['log'], cnat)}, {cnat(o['peak'])}, {idle}, {clist(o.get('glog') or [], cnat)})"


def part(n_quick, n_thorough, report_slot_leak=False):
    """report_slot_leak: also report (under the key of known finding C06-UL) the slot an unloadable result leaves behind -
    set by the C06 check, whose property it violates; the other users of this part judge their own properties only."""
    from harness import core

    def orc(r):
        if r['oracle']:
            return (r['oracle'], None)
        if report_slot_leak and r.get('ul_leak'):
            return (r['ul_leak'], UL_KEY)
        return None
    return core.Part('real', 'harness.scen_backlog', 'gen', n_quick, n_thorough, 'DriverBacklog', coq_case,
                     orc,
                     lambda r: r['obs'].get('peak', 0) >= r['cfg']['capacity'] and any(x and x[0] == 'rejected' for x in r['obs'].get('outs', [])),
                     key=lambda r: json.dumps(r['cfg'], sort_keys=True),
                     describe=lambda r: {'cfg': r['cfg'], 'obs': {k: v for k, v in r['obs'].items() if k not in ('log', 'glog')},
                                         'ledger_operations': len(r['obs'].get('log', [])), 'gate_tokens': len(r['obs'].get('glog') or [])},
                     shard=100)


BACKLOG_TRUSTED = ('real-run part: AsyncServer (thread and process servlets) and Server over a ProcessServlet run unscheduled with concurrent '
                   'callers (timeouts, backpressure on/off, cancellations, failing requests); the in-flight ledger is a dict subclass that '
                   'performs len / insert / pop under a lock and logs them in that order (installed by wrapping _enter_server in the harness '
                   'process; no change to the repository); the history is replayed in coq/Model/BacklogSpec.v. For AsyncServer the condition is a '
                   'subclass of asyncio.Condition whose wait / notify are CPython 3.12 code plus log statements; ledger and condition tokens together '
                   'are replayed step by step in coq/Model/AGate.v (Driver/DriverGate.v)')


def main(argv):
    what, seed, n, outp = argv[0], int(argv[1]), int(argv[2]), argv[3]
    rest = argv[4:]
    corpus = json.load(open(rest[0])) if rest else []
    rng = random.Random(seed)
    cases = [c['cfg'] for c in corpus] + [gen_case(rng, i) for i in range(n)]
    import gc
    gc.disable()      # see harness/props/c14.py (CPython 3.12.1 thread-start / finalizer deadlock)
    results = []
    for i, c in enumerate(cases):
        try:
            o = run_case(c)
        except BaseException as e:  # noqa
            o = {'crash': repr(e)[:300]}
        results.append({'cfg': c, 'obs': o, 'oracle': oracle(c, o), 'ul_leak': ul_leak(c, o), 'strategy': c['kind'], 'verdict': 'ok'})
        if i % 10 == 9:
            gc.collect()
    json.dump(results, open(outp, 'w'))
    sys.stdout.flush()
    import os
    os._exit(0)


if __name__ == '__main__':
    main(sys.argv[1:])
