"""Worker classes for harness/scen_procstack.py. They live in their own module because the worker processes are spawned
and must be able to import them. Behaviour is a function of the constructor arguments only."""
from __future__ import annotations

import time

from mpservice.mpserver import Worker


class StageErr(Exception):
    def __init__(self, code):
        super().__init__(code)
        self.code = code


class PreErr(Exception):
    def __init__(self, code):
        super().__init__(code)
        self.code = code


class FalsyStageErr(StageErr):
    """a falsy exception object (container-like): still a failure"""
    def __len__(self):
        return 0


class FalsyPreErr(PreErr):
    def __bool__(self):
        return False


def payload_key(v):
    """the small integer a request carries, whatever padding travels with it"""
    if isinstance(v, tuple) and len(v) == 2 and isinstance(v[1], (bytes, bytearray)):
        return v[0]
    return v


def leaf_fn(k, v):
    if isinstance(v, tuple) and len(v) == 2 and isinstance(v[1], (bytes, bytearray)):
        return (leaf_fn(k, v[0]), v[1])
    if isinstance(v, int):
        return v * 10 + k
    return [k, v]


class PW(Worker):
    """stage k: fails for the inputs listed in `fail` (in call) / `pre_fail` (in preprocess); otherwise x -> 10x + k.
    `blow` > 0: the output carries `blow` bytes of padding (a result that does not fit an OS pipe buffer);
    `shrink`: padding is dropped."""

    def __init__(self, *, k, b=0, fail=None, pre_fail=None, dur=0.0, blow=0, shrink=False, **kw):
        super().__init__(batch_size=b, batch_wait_time=(0.05 if b > 1 else None), **kw)
        self._k, self._b = k, b
        self._fail = {int(a): c for a, c in (fail or {}).items()}
        self._pre_fail = {int(a): c for a, c in (pre_fail or {}).items()}
        self._dur, self._blow, self._shrink = dur, blow, shrink
        if self._pre_fail:
            self.preprocess = self._pre

    def _pre(self, x):
        key = payload_key(x)
        if isinstance(key, int) and key in self._pre_fail:
            raise (FalsyPreErr if self._pre_fail[key] % 4 == 1 else PreErr)(self._pre_fail[key])
        return x

    def _deep(self, key):
        raise ValueError(f'cannot parse {key}')

    def _one(self, x):
        key = payload_key(x)
        if isinstance(key, int) and key in self._fail:
            code = self._fail[key]
            if code % 4 == 2:
                # error translation: the failure site is one level down, the exception that leaves the worker is chained to it
                try:
                    self._deep(key)
                except ValueError as e:
                    raise StageErr(code) from e
            raise (FalsyStageErr if code % 4 == 3 else StageErr)(code)
        y = leaf_fn(self._k, x)
        if self._shrink and isinstance(y, tuple):
            y = y[0]
        if self._blow and not isinstance(y, tuple):
            y = (y, bytes(self._blow))
        return y

    def call(self, x):
        if self._dur:
            time.sleep(self._dur)
        if self._b > 0:
            return [self._one(e) for e in x]      # a failing element fails the whole batch
        return self._one(x)
