"""Worker functions for harness/scen_parreal.py; importable by spawned pool processes. Each call reports its own
(entered, left) instants on the system-wide monotonic clock, together with its process id."""
import asyncio
import os
import time


def work(x, *, dur):
    t0 = time.monotonic_ns()
    time.sleep(dur)
    return (x, os.getpid(), t0, time.monotonic_ns())


async def awork(x, *, dur, log):
    # the event-loop variant records directly (same process): a call cancelled because the consumer stopped still leaves
    t0 = time.monotonic_ns()
    try:
        await asyncio.sleep(dur)
    finally:
        log.append((t0, time.monotonic_ns()))
    return (x, os.getpid(), t0, None)


# ---- order mode (C01 / C05): plain values, failures by table ----

class StageErr(Exception):
    def __init__(self, code):
        super().__init__(code)
        self.code = code


class PreErr(Exception):
    def __init__(self, code):
        super().__init__(code)
        self.code = code


class FalsyStageErr(StageErr):
    """a falsy exception object (container-like): still a failure"""
    def __len__(self):
        return 0


class FalsyPreErr(PreErr):
    def __bool__(self):
        return False


class StopErr(StopIteration):
    """a worker may raise StopIteration like any other exception"""
    def __init__(self, code):
        super().__init__(code)
        self.code = code


def stage_err(code):
    if code == 24:
        return StopErr(code)
    return (FalsyStageErr if code % 4 == 3 else StageErr)(code)


class SrcErr(Exception):
    def __init__(self, code):
        super().__init__(code)
        self.code = code


def _dur(xx, scale):
    return ((xx * 7919) % 5) * scale / 1000.0      # scrambles the completion order


CALLS = {}        # case id -> inputs the worker function received (thread pool / event loop only: same process)


def f(xx, *, fail, off, scale, cid=None, q=0, to_stop=0, loop=0):      # (q, to_stop, loop: names the library uses internally)
    if cid is not None:
        CALLS.setdefault(cid, []).append(xx - off)
    time.sleep(_dur(xx, scale))
    if (xx - off) in fail:
        raise stage_err(fail[xx - off])
    return 3 * xx + 1 + q + to_stop + loop


async def af(xx, *, fail, off, scale, cid=None, tasks=0, to_stop=0, loop=0):
    if cid is not None:
        CALLS.setdefault(cid, []).append(xx - off)
    await asyncio.sleep(_dur(xx, scale))
    if (xx - off) in fail:
        raise stage_err(fail[xx - off])
    return 3 * xx + 1 + tasks + to_stop + loop
