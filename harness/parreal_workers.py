"""Worker functions for harness/scen_parreal.py; importable by spawned pool processes. Each call reports its own
(entered, left) instants on the system-wide monotonic clock, together with its process id."""
import asyncio
import os
import time


def work(x, *, dur):
    t0 = time.monotonic_ns()
    time.sleep(dur)
    return (x, os.getpid(), t0, time.monotonic_ns())


async def awork(x, *, dur, log):
    # the event-loop variant records directly (same process): a call cancelled because the consumer stopped still leaves
    t0 = time.monotonic_ns()
    try:
        await asyncio.sleep(dur)
    finally:
        log.append((t0, time.monotonic_ns()))
    return (x, os.getpid(), t0, None)
