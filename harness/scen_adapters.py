"""Real (unscheduled) runs of the identity stages the deterministic scheduler cannot drive: SyncIter (async source consumed
synchronously), AsyncIter (sync source consumed asynchronously) and AsyncBuffer. Every case runs under a watchdog; what the
consumer received and how the iteration ended is compared with coq/Model/Buffer.v under a fair schedule."""
from __future__ import annotations

import asyncio
import gc
import itertools
import json
import random
import sys
import threading
import time

RUN_LIMIT = 30.0


class SrcErr(Exception):
    def __init__(self, code):
        super().__init__(code)
        self.code = code


def core_cases():
    """every adapter with: an early stop far from the end; a source that fails after a few elements, with one slot, with a
    full queue drained at once (slow first element), and with a consumer that keeps up"""
    out = []
    long = [['d', i] for i in range(100)]
    failing = [['d', i] for i in range(5)] + [['e', 2]]
    for op in ('synciter', 'asynciter', 'abuffer'):
        out.append({'op': op, 'src': long, 'stop_after': 2, 'slots': 3, 'stop_kind': 'break', 'cons_ms': 5, 'src_ms': 0})
        out.append({'op': op, 'src': failing, 'stop_after': None, 'slots': 1, 'stop_kind': 'break', 'cons_ms': 0, 'src_ms': 0})
        out.append({'op': op, 'src': failing, 'stop_after': None, 'slots': 3, 'stop_kind': 'break', 'cons_ms': 0, 'src_ms': 0, 'first_ms': 300})
        out.append({'op': op, 'src': failing, 'stop_after': None, 'slots': 2, 'stop_kind': 'break', 'cons_ms': 20, 'src_ms': 1})
    return out


def gen_case(rng, idx):
    core = core_cases()
    if idx < len(core):
        return core[idx]
    op = rng.choice(['synciter', 'synciter', 'asynciter', 'abuffer', 'abuffer'])
    n = rng.choice([0, 1, 2, 3, 5, 8, 30, 100])
    table = [['d', i] for i in range(n)]
    if rng.random() < 0.4:
        table.insert(rng.randrange(0, n + 1), ['e', rng.randrange(1, 4)])
        table = table[:[k for k, _ in table].index('e') + 1]
    stop = rng.choice([None, None, 1, 2, 3, 6])
    return {'op': op, 'src': table, 'stop_after': stop, 'slots': rng.choice([1, 1, 2, 3, 6]),
            'stop_kind': rng.choice(['break', 'break', 'cancel', 'gc']) if op != 'synciter' else rng.choice(['break', 'gc']),
            'cons_ms': rng.choice([0, 0, 5, 20]), 'src_ms': rng.choice([0, 0, 1]), 'first_ms': rng.choice([0, 0, 0, 100])}


def run_case(c):
    from mpservice.streamer._streamer_async import AsyncIter, AsyncStream, SyncIter
    res = {'received': []}
    out = res['received']
    how = c['stop_kind']
    tname_before = {t.ident for t in threading.enumerate()}

    def sync_source():
        for kind, v in c['src']:
            if c['src_ms']:
                time.sleep(c['src_ms'] / 1000)
            if kind == 'd':
                yield v
            else:
                raise SrcErr(v)

    async def async_source():
        for kind, v in c['src']:
            if c['src_ms']:
                await asyncio.sleep(c['src_ms'] / 1000)
            if kind == 'd':
                yield v
            else:
                raise SrcErr(v)

    def sync_body():
        it = iter(SyncIter(async_source()))
        try:
            try:
                for x in it:
                    out.append(x)
                    if c['stop_after'] is not None and len(out) >= c['stop_after']:
                        res['outcome'] = ['broke']
                        break
                    if len(out) == 1 and c.get('first_ms'):
                        time.sleep(c['first_ms'] / 1000)       # the queue fills behind the consumer, which then drains at once
                    elif c['cons_ms']:
                        time.sleep(c['cons_ms'] / 1000)
                else:
                    res['outcome'] = ['completed']
            except SrcErr as e:
                res['outcome'] = ['raised', e.code]
            except Exception as e:  # noqa
                res['outcome'] = ['other', repr(e)[:200]]
        finally:
            if how == 'gc':
                del it
                gc.collect()
            else:
                it.close()

    async def async_consume():
        s = AsyncIter(sync_source()) if c['op'] == 'asynciter' else AsyncStream(async_source()).buffer(c['slots'])
        me = asyncio.current_task()
        it = s.__aiter__()
        try:
            try:
                async for x in it:
                    out.append(x)
                    if c['stop_after'] is not None and len(out) >= c['stop_after']:
                        if how == 'cancel':
                            asyncio.get_running_loop().call_soon(me.cancel)
                            continue
                        res['outcome'] = ['broke']
                        break
                    if len(out) == 1 and c.get('first_ms'):
                        time.sleep(c['first_ms'] / 1000)       # (blocks the loop on purpose: the queue fills, then is drained at once)
                    elif c['cons_ms']:
                        await asyncio.sleep(c['cons_ms'] / 1000)
                else:
                    res['outcome'] = ['completed']
            except asyncio.CancelledError:
                res['outcome'] = ['broke']
                res['cancelled_after'] = len(out)
            except SrcErr as e:
                res['outcome'] = ['raised', e.code]
            except Exception as e:  # noqa
                res['outcome'] = ['other', repr(e)[:200]]
        finally:
            if how == 'gc' and res.get('outcome') == ['broke']:
                del it
                gc.collect()
                await asyncio.sleep(0.05)
            else:
                await it.aclose()

    async def async_main():
        t = asyncio.ensure_future(async_consume())
        await asyncio.wait([t])
        await asyncio.sleep(0.2)
        res['tasks_left'] = sorted(x.get_name() for x in asyncio.all_tasks() if x is not asyncio.current_task())

    def body():
        try:
            if c['op'] == 'synciter':
                sync_body()
            else:
                asyncio.run(async_main())
        except BaseException as e:  # noqa
            res['crash'] = repr(e)[:300]

    th = threading.Thread(target=body, daemon=True)
    t0 = time.monotonic()
    th.start()
    th.join(RUN_LIMIT)
    if th.is_alive():
        return {'hung': True, 'received': list(out)}
    res['elapsed'] = round(time.monotonic() - t0, 3)
    time.sleep(0.2)
    res['threads_left'] = sorted(t.name for t in threading.enumerate()
                                 if t.ident not in tname_before and t.is_alive() and t is not th and not t.name.startswith('asyncio_'))
    return res


def oracle(c, o):
    tag = f"{c['op']} ({c['stop_kind']})"
    if o.get('crash'):
        return f'{tag}: harness/implementation crashed: ' + o['crash']
    if o.get('hung'):
        return (f"{tag}: the iteration (including closing the iterator) had not ended after {RUN_LIMIT:.0f} s; received {o['received']}, "
                f"stop after {c['stop_after']}, source of {len(c['src'])}")
    oc = o.get('outcome')
    if not oc or oc[0] == 'other':
        return f'{tag}: the iteration ended with {oc}'
    data = []
    fin = ['completed']
    for kind, v in c['src']:
        if kind == 'd':
            data.append(v)
        else:
            fin = ['raised', v]
            break
    sa = o.get('cancelled_after', None if c['stop_kind'] == 'cancel' else c['stop_after'])
    if sa is not None and (len(data) >= sa or 'cancelled_after' in o):
        data, fin = data[:sa], ['broke']
    if o['received'] != data or oc != fin:
        return f"{tag}: received {o['received']} then {oc}; the source gives {data} then {fin}"
    if o.get('tasks_left') or o.get('threads_left'):
        return f"{tag}: ended with {oc}; 0.2 s later still alive: tasks {o.get('tasks_left')}, threads {o.get('threads_left')}"
    return None


def coq_case(r):
    from harness.core import clist, cnat, copt, cz
    from harness.scen_stream import coq_src, outcome_code
    c, o = r['cfg'], r['obs']
    if o.get('crash') or o.get('hung') or not o.get('outcome') or o['outcome'][0] == 'other':
        return '(3%nat, [], None, [7%Z], 0%Z)'      # judged by the oracle
    sa = o['cancelled_after'] if 'cancelled_after' in o else (None if c['stop_kind'] == 'cancel' else c['stop_after'])
    return f"({cnat(c['slots'])}, {coq_src(c['src'])}, {copt(sa, cnat)}, {clist(o['received'], cz)}, {cz(outcome_code(o['outcome']))})"


def part(n_quick, n_thorough):
    from harness import core
    return core.Part('adapters', 'harness.scen_adapters', 'gen', n_quick, n_thorough, 'DriverBufReal', coq_case,
                     lambda r: (r['oracle'], None) if r['oracle'] else None,
                     lambda r: len(r['cfg']['src']) >= 5 and (r['cfg']['stop_after'] is not None or r['cfg']['src'][-1][0] == 'e'),
                     key=lambda r: json.dumps(r['cfg'], sort_keys=True),
                     describe=lambda r: {'cfg': {k: (v if k != 'src' else f'{len(v)} items' + (' ending in a failure' if v and v[-1][0] == 'e' else ''))
                                                 for k, v in r['cfg'].items()}, 'obs': r['obs']}, shard=150)


ADAPTERS_TRUSTED = ('real-run part (adapters): SyncIter, AsyncIter and AsyncBuffer (3+ slots) run unscheduled under a watchdog with completing, '
                    'breaking, cancelled and garbage-collected consumers and failing sources; outputs and outcome are compared with the identity-stage '
                    'model coq/Model/Buffer.v under a fair schedule (the adapters are not modelled at their own granularity)')


def main(argv):
    what, seed, n, outp = argv[0], int(argv[1]), int(argv[2]), argv[3]
    rest = argv[4:]
    corpus = json.load(open(rest[0])) if rest else []
    rng = random.Random(seed)
    cases = [c['cfg'] for c in corpus] + [gen_case(rng, i) for i in range(n)]
    gc.disable()
    results = []
    for i, c in enumerate(cases):
        try:
            o = run_case(c)
        except BaseException as e:  # noqa
            o = {'crash': repr(e)[:300]}
        results.append({'cfg': c, 'obs': o, 'oracle': oracle(c, o), 'strategy': c['op'] + ':' + c['stop_kind'], 'verdict': 'ok'})
    json.dump(results, open(outp, 'w'))
    sys.stdout.flush()
    import os
    os._exit(0)


if __name__ == '__main__':
    main(sys.argv[1:])
